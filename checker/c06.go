package main

import (
	"fmt"
	"go/constant"
	"go/token"
	"go/types"
	"os"
	"sort"
	"strconv"
	"strings"

	"golang.org/x/tools/go/ssa"
)

func init() {
	register(&propCheck{
		id:              "C06",
		level:           "other",
		explanation:     "Agreement of the filesystem API with a reference model over programs of calls is behavioural and is not decidable statically. Decided here are three structural clauses of the statement's second sentence: (Z1) 'leaves no file handle open — on success, failure or cancellation': for every call in package filesystem that yields a file handle (GenericOpen, OpenFile, CreateFile, TempFile, the backend's Open/Create/OpenFile, zip.File.Open, the archive-reader helpers that return the opened file), on the side where a handle exists either the handle is handed to the caller (returned, stored in a returned structure) or every path to an exit passes a Close on it — explicit, or deferred on that path; (Z2) 'a copy never changes its source': in the copy call graph every mutating filesystem method is invoked on the destination filesystem parameter, never on the source one, and the source handle is only read; (Z3) a move removes its source only on the nil side of the copy/rename it falls back to. Decided on SSA; nothing is executed. (Z5) on the same filesystem object the resolved destination handed to the copy workers is compared with the source and no worker is reachable where they are equal — 'a copy never changes its source, also when source and destination overlap'; (Z6) the recursive folder worker is reached only after a containment test between source and resolved destination — 'a call terminates' (violated by the pinned sources: known finding K8); (Z4) 'the resulting tree matches the model' needs every write to replace: a handle opened for writing with O_CREATE carries O_TRUNC (or O_APPEND/O_EXCL). Not decided: values returned, error kinds, resulting trees, termination.",
		run:             runC06,
		thoroughConfigs: []string{"darwin/amd64", "windows/amd64"},
		assumptions: []string{
			"descriptors opened inside afero itself or by gopsutil's disk.Usage are outside the rule",
		},
	})
}

// openers: callee name → index of the handle in the result tuple (-1: single result)
var c06Openers = map[string]int{
	"GenericOpen": 0, "OpenFile": 0, "CreateFile": 0, "TempFile": 0, "TempFileInTempDir": 0,
	"Open": 0, "Create": 0, // afero.Fs / zip.File
	"newZipReader": 1, "newTarReader": 1,
}

func runC06(c *Ctx) {
	c.subDirectoriesAreListedInOneOrder()
	c.notExistMeansAbsent("Z32")
	c.rule("Z1", "every file handle obtained inside package filesystem is closed on every path to an exit, or handed to the caller", 15)
	c.rule("Z2", "copy: mutating filesystem methods are invoked on the destination filesystem only; the source handle is only read", 3)
	c.rule("Z3", "move: the source is removed only after the copy/rename it depends on succeeded", 3)

	eff := c.computeEffects()
	_ = eff
	for _, f := range c.srcFuncs(fsPkgRel) {
		if strings.HasSuffix(c.Fset.Position(f.Pos()).Filename, "testing.go") {
			continue
		}
		c.c06Handles(f)
	}
	c.c06CopySource()
	c.c06MoveOrder()
	c.c06WritersReplace()
	c.c06Overlap()
	c.c06MoveKeepsWhatStays()
	c.c06MoveGuards()
	c.c06CopyToDirectory()
	c.c06MoveFolderEntries()
	c.c06MissingSourceFirst()
	c.c06RelativeContainment()
	c.c06MoveBetweenKeepsItsSource()
	c.c06NegativeDepthMeansUnlimited()
	c.c06RefusalsBeforeChanges()
	c.c06RawRemovalOnlyOfWhatIsEmpty()
	c.c06OverlapByIdentity()
	// Z23: the API comes in variants (package-level function and method, with and without context, patterns or limits); most
	// are one-line forwarders
	c.rule("Z23", "every one-line forwarder of package filesystem hands each of its parameters to the call it forwards to, exactly once: a variant does what the operation does, with the arguments it was given", 90)
	c.forwardersKeepTheirArguments("Z23", []string{fsPkgRel}, nil,
		"called through that variant the operation ignores an argument (patterns, limits, a flag) or uses one argument for two — the values returned and the resulting tree are not those of the operation the caller asked for")
	// Z24: who may call the bare copy workers
	c.c06WorkersOnlyBehindTheGuards()
	c.c06IntoRuleAppliedOnce()
	c.c06NothingCreatedForACopyThatWillBeRefused()
	c.c06ClimbingLoopsStopAtTheFixedPoint()
	c.c06MoveOntoItselfWhateverTheKind()
	c.c06RelativePathsAreThoseOfTheReference()
	c.filterLeavesOutOnlyWhatMatches("Z31") // the obligation C08/E15: what a listing holds is decided by the patterns alone
	c.c06CancellationIsReported()
	if os.Getenv("GUCHECK_EXPLORE") == "forwarders" {
		c.exploreForwarders()
	}
	// Z21: "the values returned, the error kinds and the resulting tree are those of the reference model": an operation that
	// failed half-way says so. In everything remove, clean, move and copy reach inside the package, an error assigned to a
	// variable is read before it is overwritten (the obligation C04/N8 = C09/A17, evaluated for the operations of C06).
	c.rule("Z21", "in everything remove, clean, move and copy reach inside package filesystem an error assigned to a variable is read before the variable is overwritten or the function returns: a step that failed (or was cancelled) half-way is not covered by the success of the next one", 60)
	{
		var roots []*ssa.Function
		for _, n := range []string{"(*VFS).RemoveWithContextAndExclusionPatterns", "(*VFS).CleanDirWithContextAndExclusionPatterns", "(*VFS).MoveWithContext", "MoveBetweenFS", "CopyBetweenFSWithExclusionRegexes", "(*VFS).CopyToDirectoryWithContext", "(*VFS).CopyToFileWithContext"} {
			if f := c.fnOpt(fsPkgRel, n); f != nil {
				roots = append(roots, f)
			}
		}
		var fns []*ssa.Function
		for f := range c.reachable(roots, false, inPkg(fsPkgRel)) {
			fns = append(fns, f)
		}
		sortFuncs(fns)
		for _, f := range fns {
			c.errOverwrittenRule("Z21", f)
		}
	}
	// Z19: "the values returned are those of the reference model": is-empty and clean answer for the tree they were given
	c.rule("Z19", absentOnlyWhenAbsentText, 2)
	c.c04AbsentOnlyWhenAbsent("Z19", func(f *ssa.Function) bool { return f.Name() == "IsEmpty" || strings.HasPrefix(f.Name(), "CleanDir") })
	// Z16: hash — "the values returned … are those of the reference model": the digest of a file is the digest of its bytes,
	// whatever they are. The file hasher streams the handle it opened into the hasher (the obligation C20/H4): reading the
	// content through ReadFile first refuses empty files ('empty: no bytes were read').
	c.rule("Z16", "file hashing opens the requested path and streams that handle into the hasher (the obligation C20/H4): no detour through a read helper that refuses some contents", 3)
	c.ruleAlias = map[string]string{"H4": "Z16"}
	c.c20FileHash()
	c.ruleAlias = nil
}

// c06Overlap: "a copy never changes its source, also when source and destination overlap" / "a call terminates".
// The copy resolves its destination first (an existing directory receives the item under its base name) and then
// hands source and resolved destination to the workers, which create — and so truncate — every destination file.
// (Z5) With source and destination on the same filesystem object, every path to a worker passes a comparison of the
// source path with the very value handed to the worker as destination, and the worker is not reachable from its
// equal side. (Z6) The folder worker, which lists the source while it creates the destination, is reached only
// after a containment test between source and resolved destination (a destination inside the source is listed in
// turn: the copy feeds on its own output).
func (c *Ctx) c06Overlap() {
	c.rule("Z5", "copy: on the same filesystem object the resolved destination handed to the workers is compared with the source, and no worker is reachable from the equal side", 2)
	c.rule("Z6", "copy: the recursive folder worker is reached only after a containment test between the source and the resolved destination", 1)
	f := c.fn(fsPkgRel, "CopyBetweenFSWithExclusionRegexes")
	c.FuncsSeen[fname(f)] = true
	si, di := paramIndexByName(f, "srcFs"), paramIndexByName(f, "destFs")
	pi := paramIndexByName(f, "src")
	if si < 0 || di < 0 || pi < 0 {
		c.fatalf("C06/Z5: parameters of CopyBetweenFSWithExclusionRegexes not found")
		return
	}
	srcFs, destFs, src := f.Params[si], f.Params[di], f.Params[pi]
	// v is root, possibly cleaned
	derivesFromOnly := func(v, root ssa.Value) bool {
		for i := 0; i < 4; i++ {
			if v == root {
				return true
			}
			cl, ok := v.(*ssa.Call)
			if !ok || calleeFull(&cl.Call) != "path/filepath.Clean" {
				return false
			}
			v = cl.Call.Args[0]
		}
		return false
	}
	// fsTest: v compares the two filesystem objects; neq reports the != form
	fsTest := func(v ssa.Value) (is, neq bool) {
		b, ok := v.(*ssa.BinOp)
		if !ok || (b.Op != token.EQL && b.Op != token.NEQ) {
			return false, false
		}
		x, y := resolveValue(b.X), resolveValue(b.Y)
		if (x == ssa.Value(srcFs) && y == ssa.Value(destFs)) || (x == ssa.Value(destFs) && y == ssa.Value(srcFs)) {
			return true, b.Op == token.NEQ
		}
		return false, false
	}
	var workers []*ssa.Call
	allInstrs(f, func(in ssa.Instruction) {
		if cl, ok := in.(*ssa.Call); ok {
			if g := staticCallee(&cl.Call); g != nil && (g.Name() == "copyFolderBetweenFSWithExclusionRegexes" || g.Name() == "copyFileBetweenFSWithExclusionPatternsWithExclusionRegexes") {
				workers = append(workers, cl)
			}
		}
	})
	if len(workers) == 0 {
		c.fatalf("C06/Z5: the copy no longer hands over to its folder/file workers")
		return
	}
	for _, w := range workers {
		g := staticCallee(&w.Call)
		wd := w.Call.Args[paramIndexByName(g, "dest")]
		key := fname(f) + "/" + g.Name() + "/same-object"
		// the path comparison whose operands are the source and the worker's own destination value
		var test *ssa.If
		trueSucc := 0
		rawOperand := false
		for _, b := range f.Blocks {
			ifi, ok := b.Instrs[len(b.Instrs)-1].(*ssa.If)
			if !ok {
				continue
			}
			v, ts := boolTest(ifi)
			cmp, ok := v.(*ssa.BinOp)
			if !ok || (cmp.Op != token.EQL && cmp.Op != token.NEQ) {
				continue
			}
			isSrc := func(x ssa.Value) bool { return derivesFromOnly(x, src) }
			isDst := func(x ssa.Value) bool { return derivesFromOnly(x, wd) || x == wd }
			if (isSrc(cmp.X) && isDst(cmp.Y)) || (isSrc(cmp.Y) && isDst(cmp.X)) {
				test = ifi
				trueSucc = ts
				if cmp.Op == token.NEQ {
					trueSucc = 1 - ts
				}
				// both operands must be in canonical form: the caller's strings may spell one object in several ways
				for _, o := range []ssa.Value{cmp.X, cmp.Y} {
					if !canonicalPath(o, 4) {
						rawOperand = true
					}
				}
			}
		}
		if test != nil && rawOperand {
			c.violate("Z5", key, c.ipos(test), "the source is compared with the resolved destination as spelt by the caller, not in cleaned form: the same object named \"d/./f\", \"d//f\" or with a trailing separator is not recognised, the worker re-creates it and truncates the source before reading it")
			continue
		}
		if test == nil {
			c.violate("Z5", key, c.ipos(w), "the destination handed to "+g.Name()+" is never compared with the source: when the resolved destination is the source itself (Copy(\"d/f\", \"d\"), Copy(\"d\", parent of d)) the worker creates the destination anew and truncates the source before reading it")
			continue
		}
		// assuming srcFs == destFs, every path from the entry to the worker passes the test
		skip := pathPruned(f, nil, func(i ssa.Instruction) bool { return i == ssa.Instruction(test) }, func(i ssa.Instruction) bool { return i == ssa.Instruction(w) }, func(b *ssa.BasicBlock, k int) bool {
			ifi, ok := b.Instrs[len(b.Instrs)-1].(*ssa.If)
			if !ok {
				return false
			}
			v, ts := boolTest(ifi)
			is, neq := fsTest(v)
			if !is {
				return false
			}
			differ := 1 - ts // the edge taken when the two objects differ
			if neq {
				differ = ts
			}
			return k == differ
		})
		if skip != nil {
			c.violate("Z5", key, c.ipos(w), "with source and destination on the same filesystem object there is a path to "+g.Name()+" that does not pass the comparison of the source with the resolved destination at "+c.ipos(test))
			continue
		}
		// and the worker is not reachable from the equal side
		reach := false
		seen := map[*ssa.BasicBlock]bool{}
		var walk func(b *ssa.BasicBlock)
		walk = func(b *ssa.BasicBlock) {
			if seen[b] {
				return
			}
			seen[b] = true
			if b == w.Block() {
				reach = true
			}
			for _, s := range b.Succs {
				walk(s)
			}
		}
		eq := test.Block().Succs[trueSucc]
		if eq != test.Block().Succs[1-trueSucc] {
			walk(eq)
		} else {
			reach = true
		}
		c.check(!reach, "Z5", key, c.ipos(test), "source compared with the worker's own destination; the worker is not reachable from the equal side",
			g.Name()+" is still reachable where the source equals the resolved destination")
	}
	// Z6
	for _, w := range workers {
		g := staticCallee(&w.Call)
		if g.Name() != "copyFolderBetweenFSWithExclusionRegexes" {
			continue
		}
		wd := w.Call.Args[paramIndexByName(g, "dest")]
		found := ""
		var tests []ssa.Instruction
		allInstrs(f, func(in ssa.Instruction) {
			cl, ok := in.(*ssa.Call)
			if !ok {
				return
			}
			n := calleeFull(&cl.Call)
			low := strings.ToLower(n)
			if !(n == "strings.HasPrefix" || n == "path/filepath.Rel" || strings.Contains(low, "subpath") || strings.Contains(low, "within") || strings.Contains(low, "inside") || strings.Contains(low, "contains")) {
				return
			}
			hasSrc, hasDst := false, false
			for _, a := range cl.Call.Args {
				if operandReaches(a, src, 8) {
					hasSrc = true
				}
				if operandReaches(a, wd, 8) {
					hasDst = true
				}
			}
			if hasSrc && hasDst {
				tests = append(tests, cl)
				found = c.ipos(cl)
			}
		})
		if found != "" {
			// with both on the same filesystem object and the source a directory, every path to the worker passes a test
			isTest := func(i ssa.Instruction) bool {
				for _, t := range tests {
					if t == i {
						return true
					}
				}
				return false
			}
			skip := pathPruned(f, nil, isTest, func(i ssa.Instruction) bool { return i == ssa.Instruction(w) }, func(b *ssa.BasicBlock, k int) bool {
				ifi, ok := b.Instrs[len(b.Instrs)-1].(*ssa.If)
				if !ok {
					return false
				}
				v, ts := boolTest(ifi)
				if is, neq := fsTest(v); is {
					differ := 1 - ts
					if neq {
						differ = ts
					}
					return k == differ
				}
				// the side where the source is not a directory
				if ex, ok := v.(*ssa.Extract); ok && ex.Index == 0 {
					if ic, ok := ex.Tuple.(*ssa.Call); ok && ic.Call.IsInvoke() && ic.Call.Method.Name() == "IsDir" && resolveValue(ic.Call.Value) == ssa.Value(srcFs) {
						return k == 1-ts
					}
				}
				return false
			})
			if skip != nil {
				found = ""
			}
		}
		c.check(found != "", "Z6", fname(f)+"/destination-inside-source", c.ipos(w), "containment of the resolved destination in the source is tested at "+found,
			"the folder worker is reached without any containment test between the source and the resolved destination: for a destination inside the source (Copy(\"d\", \"d/sub\")) the worker lists the directory it is creating and copies it into itself, level after level — on the OS until the path is too long, on the in-memory filesystem without end")
	}
}

// c06WritersReplace: "a write to a path replaces its content" in the reference model. A handle opened for
// writing with O_CREATE but without O_TRUNC, O_APPEND or O_EXCL writes from offset 0 into whatever is already
// there and leaves the old tail behind whenever the new content is shorter.
func (c *Ctx) c06WritersReplace() {
	c.rule("Z4", "a handle opened in package filesystem for writing with O_CREATE also carries O_TRUNC (or O_APPEND / O_EXCL): a write replaces the content, it does not overlay it", 2)
	osp := c.Prog.ImportedPackage("os")
	if osp == nil {
		c.fatalf("package os not loaded")
	}
	flag := func(n string) int64 {
		k, _ := osp.Pkg.Scope().Lookup(n).(*types.Const)
		if k == nil {
			c.fatalf("os.%s not found", n)
		}
		v, _ := constant.Int64Val(k.Val())
		return v
	}
	oW, oRW, oC, oT, oA, oE := flag("O_WRONLY"), flag("O_RDWR"), flag("O_CREATE"), flag("O_TRUNC"), flag("O_APPEND"), flag("O_EXCL")
	for _, f := range c.srcFuncs(fsPkgRel) {
		if strings.HasSuffix(c.Fset.Position(f.Pos()).Filename, "testing.go") {
			continue
		}
		n := 0
		allInstrs(f, func(in ssa.Instruction) {
			cl, ok := in.(*ssa.Call)
			if !ok {
				return
			}
			name := ""
			if cl.Call.IsInvoke() {
				name = cl.Call.Method.Name()
			} else if g := staticCallee(&cl.Call); g != nil {
				name = g.Name()
			}
			if name != "OpenFile" {
				return
			}
			args := cl.Call.Args
			if !cl.Call.IsInvoke() && cl.Call.Signature().Recv() != nil {
				args = args[1:]
			}
			if len(args) != 3 {
				return
			}
			fl, isConst := constInt(args[1])
			if !isConst {
				return // a forwarder: the flags are its caller's
			}
			if fl&oC == 0 || fl&(oW|oRW) == 0 {
				return
			}
			n++
			key := fname(outermost(f)) + "/open-for-replace"
			if n > 1 {
				key += "#" + strconv.Itoa(n)
			}
			c.FuncsSeen[fname(outermost(f))] = true
			c.check(fl&(oT|oA|oE) != 0, "Z4", key, c.pos(cl.Pos()),
				"opened with O_CREATE and O_TRUNC/O_APPEND/O_EXCL",
				"opened for writing with O_CREATE but without O_TRUNC (nor O_APPEND/O_EXCL): when the path already holds longer content, the write starts at offset 0 and the old tail stays — the content read back is not the content written")
		})
	}
}

func openerCall(in ssa.Instruction) (cl *ssa.Call, idx int, ok bool) {
	cl, isCall := in.(*ssa.Call)
	if !isCall {
		return nil, 0, false
	}
	var name string
	if cl.Call.IsInvoke() {
		rt := cl.Call.Value.Type().String()
		if !(strings.HasSuffix(rt, "filesystem.FS") || strings.HasSuffix(rt, "filesystem.ICloseableFS") || strings.HasSuffix(rt, "afero.Fs")) {
			return nil, 0, false
		}
		name = cl.Call.Method.Name()
	} else {
		g := staticCallee(&cl.Call)
		if g == nil {
			return nil, 0, false
		}
		n := calleeFull(&cl.Call)
		switch {
		case g.Signature.Recv() != nil && isVFSPtr(g.Signature.Recv().Type()):
			name = g.Name()
		case n == "(*archive/zip.File).Open":
			name = "Open"
		case n == "github.com/spf13/afero.TempFile":
			name = "TempFile"
		case inPkg(fsPkgRel)(g) && (g.Name() == "newZipReader" || g.Name() == "newTarReader"):
			name = g.Name()
		default:
			return nil, 0, false
		}
	}
	i, known := c06Openers[name]
	if !known {
		return nil, 0, false
	}
	// must return (…handle…, error)
	res := cl.Call.Signature().Results()
	if res.Len() < 2 || !isErrorType(res.At(res.Len()-1).Type()) {
		return nil, 0, false
	}
	return cl, i, true
}

func (c *Ctx) c06Handles(f *ssa.Function) {
	allInstrs(f, func(in ssa.Instruction) {
		cl, idx, ok := openerCall(in)
		if !ok {
			return
		}
		c.FuncsSeen[fname(outermost(f))] = true
		var h ssa.Value
		for _, r := range *cl.Referrers() {
			if ex, ok := r.(*ssa.Extract); ok && ex.Index == idx {
				h = ex
			}
		}
		key := fname(outermost(f)) + "/open:" + short(calleeNameOf(cl))
		if h == nil {
			// result discarded or the tuple returned as a whole
			tail := false
			for _, r := range *cl.Referrers() {
				if _, ok := r.(*ssa.Return); ok {
					tail = true
				}
			}
			if tail {
				c.ok("Z1", key, c.ipos(cl), "handle returned to the caller")
			} else {
				c.violate("Z1", key, c.ipos(cl), "the handle returned by "+short(calleeNameOf(cl))+" is discarded: it can never be closed")
			}
			return
		}
		isH := func(v ssa.Value) bool {
			if v == nil {
				return false
			}
			r := resolveValue(v)
			if r == h {
				return true
			}
			for _, l := range sources(v, deriveOpts{}) {
				if l == h {
					return true
				}
			}
			return false
		}
		// escapes?
		escapes := false
		allInstrs(f, func(j ssa.Instruction) {
			switch x := j.(type) {
			case *ssa.Return:
				for _, rv := range x.Results {
					if isH(rv) {
						escapes = true
					}
				}
			case *ssa.Store:
				if _, isField := x.Addr.(*ssa.FieldAddr); isField && isH(x.Val) {
					escapes = true
				}
			case *ssa.Call:
				n := calleeFull(&x.Call)
				if strings.HasSuffix(n, "filesystem.convertToExtendedFile") || strings.HasSuffix(n, "filesystem.convertFile") || strings.Contains(n, "NewCloseableVirtualFileSystem") ||
					strings.HasSuffix(n, "changeFilePermissionsToWritable") {
					for _, a := range x.Call.Args {
						if isH(a) {
							escapes = true
						}
					}
				}
			}
		})
		if escapes {
			c.ok("Z1", key, c.ipos(cl), "handle handed to the caller / wrapped into the returned object")
			return
		}
		// must-close on every path where a handle exists
		errs := errResultsOf(cl)
		isClose := func(j ssa.Instruction) bool {
			switch x := j.(type) {
			case *ssa.Call:
				if x.Call.IsInvoke() && x.Call.Method.Name() == "Close" && isH(x.Call.Value) {
					return true
				}
			case *ssa.Defer:
				if x.Call.IsInvoke() && x.Call.Method.Name() == "Close" && isH(x.Call.Value) {
					return true
				}
				if g := staticCallee(&x.Call); g != nil {
					found := false
					allInstrs(g, func(k ssa.Instruction) {
						if cc, ok := k.(*ssa.Call); ok && cc.Call.IsInvoke() && cc.Call.Method.Name() == "Close" && isH(cc.Call.Value) {
							found = true
						}
					})
					return found
				}
			}
			return false
		}
		prune := func(b *ssa.BasicBlock, k int) bool {
			ifi, ok := b.Instrs[len(b.Instrs)-1].(*ssa.If)
			if !ok {
				return false
			}
			if x, nilSucc, ok := nilTest(ifi); ok {
				// error of the opener (possibly converted) non-nil → no handle
				if idx == 0 && len(errs) > 0 && (sameValue(x, errs[0]) || derivesOnly(x, errs[0])) {
					// (the archive-reader helpers hand back the opened file together with an error: no pruning for them)
					return k != nilSucc
				}
				// handle == nil → no handle
				if isH(x) {
					return k == nilSucc
				}
			}
			return false
		}
		esc := pathPruned(f, cl, isClose, isReturn, prune)
		if esc == nil {
			c.ok("Z1", key, c.ipos(cl), "closed (explicitly or by a defer registered on the path) before every exit")
		} else {
			c.violate("Z1", key, c.ipos(cl), "a path from this open reaches the exit at "+c.ipos(esc)+" with the handle still open and no deferred Close registered: the descriptor leaks on that path (error or cancellation paths included)")
		}
	})
}

// Z2
func (c *Ctx) c06CopySource() {
	names := []string{"CopyBetweenFSWithExclusionRegexes", "copyFolderBetweenFSWithExclusionRegexes", "copyFileBetweenFSWithExclusionPatternsWithExclusionRegexes"}
	for _, n := range names {
		f := c.fn(fsPkgRel, n)
		if f == nil {
			continue
		}
		c.FuncsSeen[fname(f)] = true
		si, di := paramIndexByName(f, "srcFs"), paramIndexByName(f, "destFs")
		if si < 0 || di < 0 {
			c.fatalf("C06/Z2: parameters srcFs/destFs of %s not found", n)
			continue
		}
		bad := ""
		withAnon(f, func(h *ssa.Function) {
			allInstrs(h, func(in ssa.Instruction) {
				cl, ok := in.(*ssa.Call)
				if !ok || !cl.Call.IsInvoke() {
					return
				}
				if resolveValue(cl.Call.Value) == ssa.Value(f.Params[si]) && fsMutators[cl.Call.Method.Name()] {
					bad = c.ipos(cl) + " " + cl.Call.Method.Name() + " on srcFs"
				}
			})
		})
		// the source handle is only read: it is never the destination operand of a copy nor written to
		allInstrs(f, func(in ssa.Instruction) {
			cl, ok := in.(*ssa.Call)
			if !ok {
				return
			}
			if strings.HasSuffix(calleeFull(&cl.Call), "safeio.CopyDataWithContext") || strings.HasSuffix(calleeFull(&cl.Call), "safeio.CopyNWithContext") {
				for _, l := range sources(cl.Call.Args[2], deriveOpts{}) {
					if ex, ok := l.(*ssa.Extract); ok {
						if oc, ok := ex.Tuple.(*ssa.Call); ok && oc.Call.IsInvoke() && resolveValue(oc.Call.Value) == ssa.Value(f.Params[si]) {
							bad = c.ipos(cl) + " the source handle is the destination of the copy"
						}
					}
				}
			}
		})
		c.check(bad == "", "Z2", fname(f), c.pos(f.Pos()), "mutations go to destFs only", "the copy mutates its source ("+bad+")")
	}
}

// Z3
func (c *Ctx) c06MoveOrder() {
	type spec struct {
		fn      string
		dep     []string // calls whose success the removal depends on
		removal []string
	}
	for _, sp := range []spec{
		{"(*VFS).moveFile", []string{"CopyBetweenFSWithExclusionRegexes", "CopyWithContext", "CopyBetweenFS"}, []string{"Remove", "RemoveWithContext", "Rm"}},
		{"(*VFS).moveFolder", []string{"MoveWithContext"}, []string{"RemoveWithContext", "Rm", "Remove"}},
		{"MoveBetweenFS", []string{"CopyBetweenFS", "CopyBetweenFSWithExclusionPatterns"}, []string{"RemoveWithContext", "Rm"}},
	} {
		f := c.fn(fsPkgRel, sp.fn)
		if f == nil {
			continue
		}
		c.FuncsSeen[fname(f)] = true
		var deps, rems []*ssa.Call
		allInstrs(f, func(in ssa.Instruction) {
			cl, ok := in.(*ssa.Call)
			if !ok {
				return
			}
			name := ""
			if cl.Call.IsInvoke() {
				name = cl.Call.Method.Name()
			} else if g := staticCallee(&cl.Call); g != nil {
				name = g.Name()
			}
			for _, d := range sp.dep {
				if name == d {
					deps = append(deps, cl)
				}
			}
			for _, r := range sp.removal {
				if name == r {
					rems = append(rems, cl)
				}
			}
		})
		sort.Slice(deps, func(i, j int) bool { return deps[i].Pos() < deps[j].Pos() })
		key := fname(f)
		if len(deps) == 0 || len(rems) == 0 {
			c.violate("Z3", key, c.pos(f.Pos()), "the move no longer consists of a copy/move of the content followed by the removal of the source")
			continue
		}
		good := true
		why := ""
		for _, r := range rems {
			for _, d := range deps {
				if pathPruned(f, d, func(ssa.Instruction) bool { return false }, func(in ssa.Instruction) bool { return in == ssa.Instruction(r) }, nil) == nil {
					continue
				}
				errs := errResultsOf(d)
				if len(errs) == 0 || !(onNilSide(errs[0], r) || noErrorPathTo(d, r)) {
					good = false
					why = "the removal at " + c.ipos(r) + " can run although " + short(calleeNameOf(d)) + " at " + c.ipos(d) + " failed: whatever it removes (the source, whose content was not transferred; or the destination as the caller named it, which may be an existing directory with other entries) is lost on a move that reports failure"
				}
			}
		}
		c.check(good, "Z3", key, c.ipos(rems[0]), "source removed only after the transfer succeeded", why)
	}
}

// noErrorPathTo: every path from call d to r goes through the nil side of a
// test of d's error (covers errors tested inside loops where the removal
// follows the loop).
func noErrorPathTo(d *ssa.Call, r ssa.Instruction) bool {
	errs := errResultsOf(d)
	if len(errs) == 0 {
		return false
	}
	f := d.Parent()
	prune := func(b *ssa.BasicBlock, k int) bool {
		ifi, ok := b.Instrs[len(b.Instrs)-1].(*ssa.If)
		if !ok {
			return false
		}
		if x, nilSucc, ok := nilTest(ifi); ok && (sameValue(x, errs[0]) || derivesOnly(x, errs[0])) {
			return k == nilSucc // forbid the nil side: look for a path that only uses non-nil / untested edges
		}
		return false
	}
	// is r reachable from d when the nil side of every test of d's error is forbidden?
	hit := pathPruned(f, d, func(ssa.Instruction) bool { return false }, func(in ssa.Instruction) bool { return in == r }, prune)
	if hit == nil {
		return true
	}
	// reachable without ever testing the error?
	tested := false
	for _, b := range f.Blocks {
		if ifi, ok := b.Instrs[len(b.Instrs)-1].(*ssa.If); ok {
			if x, _, ok := nilTest(ifi); ok && (sameValue(x, errs[0]) || derivesOnly(x, errs[0])) {
				tested = true
			}
		}
	}
	_ = tested
	return false
}

var _ = token.ADD

// operandReaches: target occurs among the operands v is computed from (calls, arithmetic, conversions, variadic
// slices), without looking through phi nodes other than target itself.
func operandReaches(v, target ssa.Value, depth int) bool {
	if v == target {
		return true
	}
	if depth == 0 || v == nil {
		return false
	}
	switch x := v.(type) {
	case *ssa.Call:
		for _, a := range x.Call.Args {
			if operandReaches(a, target, depth-1) {
				return true
			}
		}
		if x.Call.IsInvoke() {
			return operandReaches(x.Call.Value, target, depth-1)
		}
	case *ssa.BinOp:
		return operandReaches(x.X, target, depth-1) || operandReaches(x.Y, target, depth-1)
	case *ssa.Convert:
		return operandReaches(x.X, target, depth-1)
	case *ssa.ChangeType:
		return operandReaches(x.X, target, depth-1)
	case *ssa.MakeInterface:
		return operandReaches(x.X, target, depth-1)
	case *ssa.Extract:
		return operandReaches(x.Tuple, target, depth-1)
	case *ssa.Slice:
		for _, e := range variadicElems(x) {
			if operandReaches(e, target, depth-1) {
				return true
			}
		}
	}
	return false
}

// canonicalPath: v is the result of filepath.Clean / Join / Abs (which clean), or a merge of such values only.
func canonicalPath(v ssa.Value, depth int) bool {
	if depth == 0 {
		return false
	}
	switch x := v.(type) {
	case *ssa.Call:
		switch calleeFull(&x.Call) {
		case "path/filepath.Clean", "path/filepath.Join", "path/filepath.Abs":
			return true
		}
	case *ssa.Extract:
		if cl, ok := x.Tuple.(*ssa.Call); ok && calleeFull(&cl.Call) == "path/filepath.Abs" && x.Index == 0 {
			return true
		}
	case *ssa.Phi:
		for _, e := range x.Edges {
			if !canonicalPath(e, depth-1) {
				return false
			}
		}
		return len(x.Edges) > 0
	}
	return false
}

// c06MoveKeepsWhatStays (Z7). A move that falls back to "copy, then remove the source" relies on the copy having put
// the content somewhere else. The copy resolves an existing directory as destination to dest/base(src) and does
// nothing (successfully) when that is the source itself: the removal then destroys the only copy. Before the
// copy-and-remove is reached the function — or every package-local caller on the way to it — must have ruled out that
// the source already is where it is moved to, by a test relating the source with the destination's resolution.
func (c *Ctx) c06MoveKeepsWhatStays() {
	c.rule("Z7", "move: the copy-then-remove fall-back is reached only after a test that the source is not already in the destination directory (the copy of an item onto itself succeeds without copying)", 2)
	isResolutionTest := func(f *ssa.Function, before ssa.Instruction) (ssa.Instruction, bool) {
		si, di := paramIndexByName(f, "src"), paramIndexByName(f, "dest")
		if si < 0 || di < 0 {
			return nil, false
		}
		src, dest := f.Params[si], f.Params[di]
		var found ssa.Instruction
		ok := false
		allInstrs(f, func(in ssa.Instruction) {
			cl, isCall := in.(*ssa.Call)
			if !isCall {
				return
			}
			g := staticCallee(&cl.Call)
			related := false
			if g != nil && inPkg(fsPkgRel)(g) && g.Blocks != nil && g != f {
				// a predicate of the package over (…, src, dest) that joins dest with the base of src and compares with src
				hs, hd := false, false
				for _, a := range cl.Call.Args {
					if resolveValue(a) == ssa.Value(src) {
						hs = true
					}
					if resolveValue(a) == ssa.Value(dest) {
						hd = true
					}
				}
				if hs && hd && c06ComparesWithResolution(g) {
					related = true
				}
			}
			if !related {
				return
			}
			// its true side must not reach `before`
			for _, b := range f.Blocks {
				ifi, isIf := b.Instrs[len(b.Instrs)-1].(*ssa.If)
				if !isIf {
					continue
				}
				v, ts := boolTest(ifi)
				uses := false
				for _, l := range sources(v, deriveOpts{}) {
					if l == ssa.Value(cl) {
						uses = true
					}
				}
				if p, isPhi := v.(*ssa.Phi); isPhi {
					for _, e := range p.Edges {
						if e == ssa.Value(cl) {
							uses = true
						}
					}
				}
				if !uses {
					continue
				}
				reach := pathPruned(f, ifi, func(ssa.Instruction) bool { return false }, func(i ssa.Instruction) bool { return i == before }, func(bb *ssa.BasicBlock, k int) bool { return bb == b && k != ts })
				// between two different filesystem objects nothing can be "already there": those edges are left out
				differ := func(bb *ssa.BasicBlock, k int) bool {
					fi, ok := bb.Instrs[len(bb.Instrs)-1].(*ssa.If)
					if !ok {
						return false
					}
					cv, cts := boolTest(fi)
					bo, ok := cv.(*ssa.BinOp)
					if !ok || (bo.Op != token.EQL && bo.Op != token.NEQ) {
						return false
					}
					isFsParam := func(x ssa.Value) bool {
						p, ok := resolveValue(x).(*ssa.Parameter)
						return ok && (p.Name() == "srcFs" || p.Name() == "destFs")
					}
					if !isFsParam(bo.X) || !isFsParam(bo.Y) {
						return false
					}
					d := 1 - cts
					if bo.Op == token.NEQ {
						d = cts
					}
					return k == d
				}
				if reach == nil && pathPruned(f, nil, func(i ssa.Instruction) bool { return i == ssa.Instruction(cl) }, func(i ssa.Instruction) bool { return i == before }, differ) == nil {
					found, ok = cl, true
				}
			}
		})
		return found, ok
	}
	for _, name := range []string{"(*VFS).moveFile", "MoveBetweenFS"} {
		f := c.fn(fsPkgRel, name)
		c.FuncsSeen[fname(f)] = true
		var cp *ssa.Call
		allInstrs(f, func(in ssa.Instruction) {
			if cl, ok := in.(*ssa.Call); ok {
				if g := staticCallee(&cl.Call); g != nil && strings.HasPrefix(g.Name(), "CopyBetweenFS") {
					cp = cl
				}
			}
		})
		key := fname(f) + "/source-not-already-there"
		if cp == nil {
			c.ok("Z7", key, c.pos(f.Pos()), "no copy-then-remove fall-back in this function")
			continue
		}
		if at, ok := isResolutionTest(f, cp); ok {
			c.ok("Z7", key, c.ipos(at), "tested here before the copy-and-remove")
			continue
		}
		// otherwise every package-local call site must have tested before calling
		sites, all := 0, true
		where := ""
		for _, g := range c.srcFuncs(fsPkgRel) {
			allInstrs(g, func(in ssa.Instruction) {
				cc := callCommon(in)
				if cc == nil || staticCallee(cc) != f {
					return
				}
				sites++
				if at, ok := isResolutionTest(outermost(g), in); ok {
					where = c.ipos(at)
				} else {
					all = false
				}
			})
		}
		c.check(sites > 0 && all, "Z7", key, c.ipos(cp), "every caller tests before it falls back to the copy-and-remove ("+where+")",
			"the copy-then-remove fall-back is reached without a test that the source is not already in the destination directory: Move(\"d/f\", \"d\") copies d/f onto itself (which succeeds without copying) and then removes it — the file is gone, the call reports success")
	}
}

// c06ComparesWithResolution: g compares (==) a cleaned form of one of its string parameters with
// filepath.Join(another parameter, filepath.Base(the first)) — the destination's resolution used by the copy.
func c06ComparesWithResolution(g *ssa.Function) bool {
	found := false
	allInstrs(g, func(in ssa.Instruction) {
		b, ok := in.(*ssa.BinOp)
		if !ok || b.Op != token.EQL {
			return
		}
		hasJoinBase := func(v ssa.Value) bool {
			res := false
			var walk func(x ssa.Value, d int)
			walk = func(x ssa.Value, d int) {
				if d == 0 || x == nil {
					return
				}
				if cl, ok := x.(*ssa.Call); ok {
					if calleeFull(&cl.Call) == "path/filepath.Join" {
						for _, e := range variadicElems(cl.Call.Args[0]) {
							if bc, ok := e.(*ssa.Call); ok && calleeFull(&bc.Call) == "path/filepath.Base" {
								res = true
							}
						}
					}
					for _, a := range cl.Call.Args {
						walk(a, d-1)
					}
				}
			}
			walk(v, 4)
			return res
		}
		if hasJoinBase(b.X) || hasJoinBase(b.Y) {
			found = true
		}
	})
	return found
}

// c06MoveGuards (Z8–Z10): three structural facts of the move on which "a call terminates and never alters or removes
// anything other than its destination, identically on both backends" rests.
func (c *Ctx) c06MoveGuards() {
	c.rule("Z8", "move: a directory source reaches the rename and the folder worker only after a containment test between source and destination", 1)
	c.rule("Z9", "move: the raw rename of the backend is only ever tried where the destination was found not to be an existing directory, nor spelt as one (trailing separator)", 2)
	c.rule("Z10", "move: the folder worker removes its emptied source as a directory (non-recursive); it never deletes what it did not move", 1)
	f := c.fn(fsPkgRel, "(*VFS).MoveWithContext")
	mf := c.fn(fsPkgRel, "(*VFS).moveFolder")
	if f == nil || mf == nil {
		return
	}
	c.FuncsSeen[fname(f)] = true
	c.FuncsSeen[fname(mf)] = true
	si, di := paramIndexByName(f, "src"), paramIndexByName(f, "dest")
	if si < 0 || di < 0 {
		c.violate("Z8", fname(f), c.pos(f.Pos()), "MoveWithContext no longer has src/dest parameters")
		return
	}
	src, dest := f.Params[si], f.Params[di]
	var rename *ssa.Call
	var targets []ssa.Instruction
	var tests []ssa.Instruction
	allInstrs(f, func(in ssa.Instruction) {
		cl, ok := in.(*ssa.Call)
		if !ok {
			return
		}
		if cl.Call.IsInvoke() && cl.Call.Method.Name() == "Rename" {
			rename = cl
			targets = append(targets, cl)
		}
		if g := staticCallee(&cl.Call); g == mf {
			targets = append(targets, cl)
		}
		n := calleeFull(&cl.Call)
		low := strings.ToLower(n)
		if n == "strings.HasPrefix" || n == "path/filepath.Rel" || strings.Contains(low, "subpath") || strings.Contains(low, "within") || strings.Contains(low, "inside") || strings.Contains(low, "contains") {
			hs, hd := false, false
			for _, a := range cl.Call.Args {
				if operandReaches(a, src, 8) {
					hs = true
				}
				if operandReaches(a, dest, 8) {
					hd = true
				}
			}
			if hs && hd {
				tests = append(tests, cl)
			}
		}
	})
	isDirOf := func(v ssa.Value, p *ssa.Parameter) bool {
		ex, ok := v.(*ssa.Extract)
		if !ok || ex.Index != 0 {
			return false
		}
		ic, ok := ex.Tuple.(*ssa.Call)
		if !ok {
			return false
		}
		name := ""
		if ic.Call.IsInvoke() {
			name = ic.Call.Method.Name()
		} else if g := staticCallee(&ic.Call); g != nil {
			name = g.Name()
		}
		if name != "IsDir" || len(ic.Call.Args) == 0 {
			return false
		}
		return resolveValue(ic.Call.Args[len(ic.Call.Args)-1]) == ssa.Value(p)
	}
	// Z8
	{
		isTest := func(i ssa.Instruction) bool {
			for _, t := range tests {
				if t == i {
					return true
				}
			}
			return false
		}
		bad := ""
		for _, t := range targets {
			t := t
			skip := pathPruned(f, nil, isTest, func(i ssa.Instruction) bool { return i == t }, func(b *ssa.BasicBlock, k int) bool {
				ifi, ok := b.Instrs[len(b.Instrs)-1].(*ssa.If)
				if !ok {
					return false
				}
				v, ts := boolTest(ifi)
				return isDirOf(v, src) && k == 1-ts // the side where the source is not a directory
			})
			if skip != nil {
				bad = c.ipos(t)
			}
		}
		c.check(len(tests) > 0 && len(targets) > 0 && bad == "", "Z8", fname(f)+"/destination-inside-source", c.pos(f.Pos()), "containment of the destination in the source is tested before the rename and the folder worker",
			"a directory source reaches "+bad+" without any containment test between source and destination: Move(\"a\", \"a/b\") creates a/b, lists a, moves a/b into a/b/b and so on — until the path is too long on the OS, leaving thousands of nested directories; the in-memory backend reports success")
	}
	// Z9
	if rename == nil {
		c.ok("Z9", fname(f)+"/rename", c.pos(f.Pos()), "no raw rename in this function")
	} else {
		// the condition is IsDir(dest), or something that is true at least whenever IsDir(dest) is (the directory test widened
		// by further cases merged with `true`, e.g. "or spelt with a trailing separator, and created")
		var atLeastIsDir func(v ssa.Value, d int) bool
		atLeastIsDir = func(v ssa.Value, d int) bool {
			if isDirOf(v, dest) {
				return true
			}
			ph, ok := v.(*ssa.Phi)
			if !ok || d > 3 {
				return false
			}
			some := false
			for _, e := range ph.Edges {
				if b, isC := constBool(e); isC {
					if !b {
						return false
					}
					continue
				}
				if !atLeastIsDir(e, d+1) {
					return false
				}
				some = true
			}
			return some
		}
		good := onBoolSide(rename, false, func(v ssa.Value) bool { return atLeastIsDir(v, 0) })
		// … nor where the destination is spelt as a directory (trailing separator): the merge of the guard has a `true` edge
		// that comes from the side where EndsWithPathSeparator(dest) answered true
		spelt := false
		for _, b := range f.Blocks {
			ifi, ok := b.Instrs[len(b.Instrs)-1].(*ssa.If)
			if !ok {
				continue
			}
			v, ts := boolTest(ifi)
			cl, isCall := v.(*ssa.Call)
			if !isCall || !strings.HasSuffix(calleeFull(&cl.Call), "EndsWithPathSeparator") || len(cl.Call.Args) == 0 || resolveValue(cl.Call.Args[len(cl.Call.Args)-1]) != ssa.Value(dest) {
				continue
			}
			trueSide := b.Succs[ts]
			// the guard of the rename
			for _, gb := range f.Blocks {
				gi, ok := gb.Instrs[len(gb.Instrs)-1].(*ssa.If)
				if !ok {
					continue
				}
				gv, gts := boolTest(gi)
				ph, isPhi := gv.(*ssa.Phi)
				if !isPhi || !edgeDominates(gb, 1-gts, rename.Block()) {
					continue
				}
				for i, e := range ph.Edges {
					if bv, isC := constBool(e); isC && bv && (trueSide == ph.Block().Preds[i] || trueSide.Dominates(ph.Block().Preds[i])) {
						spelt = true
					}
				}
			}
		}
		c.check(spelt, "Z9", fname(f)+"/rename-spelt-as-directory", c.ipos(rename), "not renamed either where the destination is spelt as a directory (trailing separator)",
			"the backend's Rename is tried with a destination that ends with a separator: Move(f, \"newdir/\") with newdir missing puts the file into newdir on the OS and turns newdir into a file on the in-memory backend")
		c.check(good, "Z9", fname(f)+"/rename", c.ipos(rename), "renamed only where the destination is not an existing directory",
			"the backend's Rename is tried although the destination may be an existing directory: the OS refuses (and the fall-back moves into the directory) but the in-memory backend replaces the directory by the source — Move(f, d) turns d into a file and orphans what d contained")
	}
	// Z10
	{
		msi := paramIndexByName(mf, "src")
		bad, n := "", 0
		allInstrs(mf, func(in ssa.Instruction) {
			cl, ok := in.(*ssa.Call)
			if !ok || msi < 0 {
				return
			}
			name := ""
			if cl.Call.IsInvoke() {
				name = cl.Call.Method.Name()
			} else if g := staticCallee(&cl.Call); g != nil {
				name = g.Name()
			}
			if !strings.HasPrefix(name, "Remove") && name != "Rm" && !strings.HasPrefix(name, "CleanDir") {
				return
			}
			if len(cl.Call.Args) == 0 || resolveValue(cl.Call.Args[len(cl.Call.Args)-1]) != ssa.Value(mf.Params[msi]) {
				return
			}
			n++
			if !(cl.Call.IsInvoke() && name == "Remove") {
				bad = c.ipos(cl) + " (" + name + ")"
			}
		})
		c.check(n > 0 && bad == "", "Z10", fname(mf)+"/source-removed-as-directory", c.pos(mf.Pos()), "the source is removed with the backend's Remove (fails if anything is left)",
			"the source folder is removed recursively at "+bad+": an entry whose move was a no-op (d/sub/sub when d/sub is moved into d: it already is where it was asked to go) is deleted with it and the move reports success")
	}
}

// c06CopyToDirectory (Z11): CopyToDirectory is `mkdir -p dest && cp -r src dest/`. The generic copy gives a missing
// destination to a directory source *as* its copy (cp -r src dest with dest missing: dest is the copy of src): only because
// the destination directory exists by the time the copy runs does a directory source land at dest/<name of src>. The creation
// of the destination directory precedes the copy on every path, and the copy runs only where it succeeded.
func (c *Ctx) c06CopyToDirectory() {
	c.rule("Z11", "CopyToDirectory creates the destination directory before it copies (a directory source is then placed inside it, whether it existed or not)", 1)
	f := c.fn(fsPkgRel, "(*VFS).CopyToDirectoryWithContext")
	if f == nil {
		return
	}
	c.FuncsSeen[fname(f)] = true
	di := paramIndexByName(f, "destDirectory")
	if di < 0 {
		for i, p := range f.Params {
			if strings.Contains(strings.ToLower(p.Name()), "dest") {
				di = i
			}
		}
	}
	key := fname(f) + "/directory-first"
	if di < 0 {
		c.violate("Z11", key, c.pos(f.Pos()), "no destination parameter found")
		return
	}
	dest := f.Params[di]
	var mk, cp *ssa.Call
	allInstrs(f, func(in ssa.Instruction) {
		cl, ok := in.(*ssa.Call)
		if !ok {
			return
		}
		name, args, isFs := fsMethodCall(cl)
		if !isFs {
			if g := staticCallee(&cl.Call); g != nil && inPkg(fsPkgRel)(g) {
				name, args = g.Name(), cl.Call.Args
			} else {
				return
			}
		}
		touchesDest := false
		for _, a := range args {
			for _, l := range sources(a, deriveOpts{through: func(n string) bool {
				return strings.HasPrefix(n, "strings.") || strings.HasPrefix(n, "path/filepath.") || n == "fmt.Sprintf"
			}}) {
				if l == ssa.Value(dest) {
					touchesDest = true
				}
			}
		}
		if !touchesDest {
			return
		}
		switch {
		case name == "MkDir" || name == "MkDirAll":
			mk = cl
		case strings.HasPrefix(name, "Copy"):
			cp = cl
		}
	})
	switch {
	case cp == nil:
		c.violate("Z11", key, c.pos(f.Pos()), "CopyToDirectoryWithContext no longer copies into its destination")
	case mk == nil:
		c.violate("Z11", key, c.ipos(cp), "the destination directory is not created before the copy: for a directory source and a destination that does not exist yet the generic copy makes the destination the copy of the source (its content is merged into the destination) instead of placing the source inside it — and the outcome differs from a second, identical call")
	default:
		errs := errResultsOf(mk)
		c.check(dominates(mk, cp) && len(errs) > 0 && onNilSide(errs[0], cp), "Z11", key, c.ipos(cp), "MkDir(destination) succeeded before the copy",
			"the copy can run without the destination directory having been created successfully first")
	}
}

// c06MoveFolderEntries (Z12): moving a folder entry by entry reproduces the tree: each entry src/<name> goes to
// dest/<name>. Handing an entry the destination directory itself works for files (they land in it) but merges the
// content of a sub-directory into the destination: the sub-tree is flattened, same-named files overwrite one another.
func (c *Ctx) c06MoveFolderEntries() {
	c.rule("Z12", "move: the folder worker moves each entry to the destination joined with the name of that entry", 1)
	mf := c.fn(fsPkgRel, "(*VFS).moveFolder")
	if mf == nil {
		return
	}
	si, di := paramIndexByName(mf, "src"), paramIndexByName(mf, "dest")
	key := fname(mf) + "/entry-destination"
	if si < 0 || di < 0 {
		c.violate("Z12", key, c.pos(mf.Pos()), "moveFolder no longer has src/dest parameters")
		return
	}
	src, dest := mf.Params[si], mf.Params[di]
	n, bad := 0, ""
	allInstrs(mf, func(in ssa.Instruction) {
		cl, ok := in.(*ssa.Call)
		if !ok || !inLoop(cl) {
			return
		}
		g := staticCallee(&cl.Call)
		if g == nil || !strings.HasPrefix(g.Name(), "Move") || len(cl.Call.Args) < 3 {
			return
		}
		// the two path arguments: the last two strings
		var paths []ssa.Value
		for _, a := range cl.Call.Args {
			if bt, isB := a.Type().Underlying().(*types.Basic); isB && bt.Kind() == types.String {
				paths = append(paths, a)
			}
		}
		if len(paths) < 2 {
			return
		}
		n++
		from, to := paths[len(paths)-2], paths[len(paths)-1]
		joined := func(v ssa.Value, dir *ssa.Parameter) (bool, ssa.Value) {
			j, isCall := resolveValue(v).(*ssa.Call)
			if !isCall || calleeFull(&j.Call) != "path/filepath.Join" {
				return false, nil
			}
			els := variadicElems(j.Call.Args[0])
			if len(els) != 2 || resolveValue(els[0]) != ssa.Value(dir) {
				return false, nil
			}
			return true, els[1]
		}
		okFrom, nameFrom := joined(from, src)
		okTo, nameTo := joined(to, dest)
		if !(okFrom && okTo && sameValue(nameFrom, nameTo)) {
			bad = c.ipos(cl)
		}
	})
	c.check(n > 0 && bad == "", "Z12", key, c.pos(mf.Pos()), "each entry src/<name> is moved to dest/<name>",
		"the entry moved at "+bad+" is not sent to the destination joined with its own name: a sub-directory handed the destination directory itself is merged into it — the sub-tree is flattened and files of the same name at different depths overwrite one another")
}

// c06MissingSourceFirst (Z13): "the values returned, the error kinds … are those of … mv, cp": a missing source is reported
// as such whatever the destination — the source itself included. In the move and the copy workers, a return that is
// justified by the two paths being equal comes after the source was looked for.
func (c *Ctx) c06MissingSourceFirst() {
	c.rule("Z13", "move / copy: a successful return justified by source and destination being the same path is preceded by the test that the source exists", 4)
	for _, name := range []string{"(*VFS).MoveWithContext", "CopyBetweenFSWithExclusionRegexes", "MoveBetweenFS"} {
		f := c.fn(fsPkgRel, name)
		if f == nil {
			continue
		}
		c.FuncsSeen[fname(f)] = true
		si, di := paramIndexByName(f, "src"), paramIndexByName(f, "dest")
		if si < 0 || di < 0 {
			c.undecided("Z13", fname(f)+"/same-path", c.pos(f.Pos()), "parameters src / dest not found")
			continue
		}
		src, dest := f.Params[si], f.Params[di]
		from := func(v ssa.Value, p *ssa.Parameter) bool {
			for _, l := range sources(v, deriveOpts{through: func(n string) bool { return strings.HasPrefix(n, "path/filepath.") || strings.HasPrefix(n, "strings.") }}) {
				if l == ssa.Value(p) {
					return true
				}
			}
			return false
		}
		n := 0
		for _, b := range f.Blocks {
			ifi, ok := b.Instrs[len(b.Instrs)-1].(*ssa.If)
			if !ok {
				continue
			}
			bo, ok := ifi.Cond.(*ssa.BinOp)
			if !ok || bo.Op != token.EQL || !((from(bo.X, src) && from(bo.Y, dest)) || (from(bo.X, dest) && from(bo.Y, src))) {
				continue
			}
			// a successful return on the equal side
			var r *ssa.Return
			for _, rb := range f.Blocks {
				if x, isR := rb.Instrs[len(rb.Instrs)-1].(*ssa.Return); isR && edgeDominates(b, 0, rb) && !isErrorExit(f, x) {
					r = x
				}
			}
			if r == nil {
				// the return reached straight from the equal side (it may be shared: `a == b || alreadyThere(a, b)`)
				nb := b.Succs[0]
				for steps := 0; steps < 20 && len(nb.Succs) == 1; steps++ {
					nb = nb.Succs[0]
				}
				if x, isR := nb.Instrs[len(nb.Instrs)-1].(*ssa.Return); isR && !isErrorExit(f, x) {
					r = x
				}
			}
			if r == nil {
				continue
			}
			n++
			looked := false
			allInstrs(f, func(in ssa.Instruction) {
				cl, ok := in.(*ssa.Call)
				if !ok {
					return
				}
				if nm, args, ok := fsMethodCall(cl); ok && (nm == "Exists" || nm == "Stat" || nm == "Lstat") && len(args) > 0 && from(args[0], src) && dominates(cl, ifi) {
					looked = true
				}
			})
			key := fname(f) + "/same-path"
			if n > 1 {
				key += "#" + strconv.Itoa(n)
			}
			c.check(looked, "Z13", key, c.ipos(ifi), "the source was looked for before the paths are compared",
				"the call returns successfully because source and destination are the same path, before it has looked for the source: moving or copying a path that does not exist onto itself succeeds, whereas every other move or copy of a missing source fails with 'not found' (as mv and cp do)")
		}
		if n == 0 {
			c.info("Z13", fname(f)+"/same-path", c.pos(f.Pos()), "no successful return justified by the equality of the two paths")
		}
	}
}

// c06RelativeContainment (Z14): whether one path lies inside another is decided either by comparing the cleaned paths
// with a separator appended (the form the move guard uses) or through filepath.Rel — and then "outside" means that the
// relative path IS ".." or STARTS WITH ".." followed by a separator. A bare HasPrefix(rel, "..") also matches names that
// merely begin with two dots (`..b`, `...`): a destination inside the source is taken to be outside it, the guard lets the
// move through and the directory is moved into itself.
func (c *Ctx) c06RelativeContainment() {
	c.rule("Z14", "no containment decision of the filesystem package rests on strings.HasPrefix(rel, \"..\") with rel obtained from filepath.Rel: names that begin with two dots are legal", 0)
	n := 0
	for _, f := range c.srcFuncs(fsPkgRel) {
		allInstrs(f, func(in ssa.Instruction) {
			cl, ok := in.(*ssa.Call)
			if !ok || calleeFull(&cl.Call) != "strings.HasPrefix" || len(cl.Call.Args) != 2 {
				return
			}
			pfx, isC := constString(cl.Call.Args[1])
			if !isC || pfx != ".." {
				return
			}
			fromRel := false
			for _, l := range sources(cl.Call.Args[0], deriveOpts{through: func(nm string) bool { return strings.HasPrefix(nm, "path/filepath.") && nm != "path/filepath.Rel" }}) {
				if ex, ok := l.(*ssa.Extract); ok {
					if rc, ok := ex.Tuple.(*ssa.Call); ok && calleeFull(&rc.Call) == "path/filepath.Rel" {
						fromRel = true
					}
				}
			}
			if !fromRel {
				return
			}
			n++
			c.violate("Z14", fname(outermost(f))+"/relative-path-starts-with-two-dots", c.ipos(cl), "a path is taken to lie outside another because its relative path starts with \"..\": so does the relative path of an entry named `..b` or `...` inside it — for the guard of Move, a directory moved into such a sub-directory of itself is no longer refused: the move recurses until the path is too long (OS) or the source tree is lost (in memory)")
		})
	}
	if n == 0 {
		c.info("Z14", fsPkgRel+"/no-bare-two-dots-prefix-test", "-", "no HasPrefix(rel, \"..\") on a filepath.Rel result")
	}
}

// c06MoveBetweenKeepsItsSource (Z15): MoveBetweenFS is a copy followed by the removal of the source. The copy does nothing
// when source and destination are the same object (its own guards compare cleaned paths, Z5) — the removal must then not
// happen either: on the same filesystem it is only reachable where the cleaned paths were compared and found different.
func (c *Ctx) c06MoveBetweenKeepsItsSource() {
	c.rule("Z15", "MoveBetweenFS removes its source only where, on one filesystem, the cleaned source and destination were found to differ: what is moved onto another spelling of itself is not deleted", 1)
	f := c.fn(fsPkgRel, "MoveBetweenFS")
	if f == nil {
		return
	}
	c.FuncsSeen[fname(f)] = true
	si, di := paramIndexByName(f, "src"), paramIndexByName(f, "dest")
	if si < 0 || di < 0 {
		c.undecided("Z15", fname(f)+"/source-kept", c.pos(f.Pos()), "parameters src / dest not found")
		return
	}
	cleanedFrom := func(v ssa.Value, p *ssa.Parameter) bool {
		cl, ok := stripConv(v).(*ssa.Call)
		return ok && calleeFull(&cl.Call) == "path/filepath.Clean" && resolveValue(cl.Call.Args[0]) == ssa.Value(p)
	}
	var removal ssa.Instruction
	allInstrs(f, func(in ssa.Instruction) {
		if cl, ok := in.(*ssa.Call); ok {
			if nm, args, ok := fsMethodCall(cl); ok && (strings.HasPrefix(nm, "Remove") || nm == "Rm") {
				for _, a := range args {
					if a.Type().String() == "string" && resolveValue(a) == ssa.Value(f.Params[si]) {
						removal = cl
					}
				}
			}
		}
	})
	if removal == nil {
		c.info("Z15", fname(f)+"/source-kept", c.pos(f.Pos()), "MoveBetweenFS does not remove its source itself")
		return
	}
	prune := func(b *ssa.BasicBlock, k int) bool {
		ifi, ok := b.Instrs[len(b.Instrs)-1].(*ssa.If)
		if !ok {
			return false
		}
		bo, ok := ifi.Cond.(*ssa.BinOp)
		if !ok || (bo.Op != token.EQL && bo.Op != token.NEQ) {
			return false
		}
		differ := 1 // successor taken when the operands differ
		if bo.Op == token.NEQ {
			differ = 0
		}
		// cleaned paths found different
		if (cleanedFrom(bo.X, f.Params[si]) && cleanedFrom(bo.Y, f.Params[di])) || (cleanedFrom(bo.X, f.Params[di]) && cleanedFrom(bo.Y, f.Params[si])) {
			return k == differ
		}
		// two different filesystem objects
		if strings.HasSuffix(bo.X.Type().String(), "filesystem.FS") && strings.HasSuffix(bo.Y.Type().String(), "filesystem.FS") {
			return k == differ
		}
		return false
	}
	hit := pathPruned(f, nil, func(ssa.Instruction) bool { return false }, func(in ssa.Instruction) bool { return in == removal }, prune)
	c.check(hit == nil, "Z15", fname(f)+"/source-kept", c.ipos(removal), "the source is removed only where the cleaned paths differ (or the filesystems do)",
		"the removal of the source can be reached without the cleaned source and destination having been found different: for `dir/f` moved to `dir/./f` the copy has nothing to do (same object) and the removal deletes the only copy — the call returns nil and the file is gone")
}

// c06NegativeDepthMeansUnlimited (Z17): the limits say "negative maximum depth = the depth is not limited" (ILimits; DefaultLimits and
// DefaultZipLimits use -1). Every comparison of a depth with GetMaxDepth() in package filesystem therefore lies where the
// maximum was found non-negative — the unzip, tar and listing siblings must agree: a bare `depth >= GetMaxDepth()` is true for
// every depth and, in the recursive listing, skips the root itself (an empty listing).
func (c *Ctx) c06NegativeDepthMeansUnlimited() {
	c.rule("Z17", "every comparison of a depth with limits.GetMaxDepth() lies where GetMaxDepth() was found to be at least 0 (a negative maximum depth means 'not limited')", 4)
	for _, f := range c.srcFuncs(fsPkgRel) {
		allInstrs(f, func(in ssa.Instruction) {
			bo, ok := in.(*ssa.BinOp)
			if !ok {
				return
			}
			switch bo.Op {
			case token.LSS, token.LEQ, token.GTR, token.GEQ:
			default:
				return
			}
			var other ssa.Value
			if isLimitsGetter(bo.X, "GetMaxDepth") {
				other = bo.Y
			} else if isLimitsGetter(bo.Y, "GetMaxDepth") {
				other = bo.X
			} else {
				return
			}
			if _, isConst := other.(*ssa.Const); isConst {
				return // the guard itself
			}
			guarded := false
			for _, b := range f.Blocks {
				ifi, isIf := b.Instrs[len(b.Instrs)-1].(*ssa.If)
				if !isIf {
					continue
				}
				g, isB := ifi.Cond.(*ssa.BinOp)
				if !isB {
					continue
				}
				k, isC := constInt(g.Y)
				if !isLimitsGetter(g.X, "GetMaxDepth") || !isC {
					continue
				}
				nonNegative := (g.Op == token.GEQ && k >= 0) || (g.Op == token.GTR && k >= -1)
				if nonNegative && (edgeDominates(b, 0, bo.Block()) || (b == bo.Block())) {
					guarded = true
				}
				if nonNegative && b.Succs[0] == bo.Block() {
					guarded = true
				}
			}
			c.FuncsSeen[fname(outermost(f))] = true
			c.check(guarded, "Z17", fname(outermost(f))+"/depth-compared-only-when-limited", c.ipos(bo), "the maximum depth was found non-negative before a depth is compared with it",
				"a depth is compared with GetMaxDepth() without the maximum having been found non-negative: with the default limits (maximum depth -1, i.e. not limited) the comparison is true for every depth — the recursive listing skips its own root and returns nothing")
		})
	}
}

// c06RefusalsBeforeChanges (Z18): "a copy never changes its source, also when source and destination overlap". The copy worker
// refuses some requests by itself (a directory copied into itself): such a refusal — a return of an error made on the spot —
// is decided before anything is created. No path leads from a mutating call on the destination filesystem to one of the
// function's own refusals.
func (c *Ctx) c06RefusalsBeforeChanges() {
	c.rule("Z18", "in the copy worker no refusal decided by the function itself (a return of an error made on the spot) can be reached after a mutating call: what is refused changes nothing", 1)
	f := c.fn(fsPkgRel, "CopyBetweenFSWithExclusionRegexes")
	if f == nil {
		return
	}
	c.FuncsSeen[fname(f)] = true
	mutating := map[string]bool{"MkDir": true, "MkDirAll": true, "CreateFile": true, "WriteFile": true, "Touch": true, "Rm": true, "Remove": true, "Move": true, "Chmod": true}
	var muts []*ssa.Call
	allInstrs(f, func(in ssa.Instruction) {
		if cl, ok := in.(*ssa.Call); ok {
			if nm, _, ok := fsMethodCall(cl); ok && mutating[nm] {
				muts = append(muts, cl)
			}
		}
	})
	k := f.Signature.Results().Len() - 1
	bad := ""
	n := 0
	allInstrs(f, func(in ssa.Instruction) {
		r, ok := in.(*ssa.Return)
		if !ok || k < 0 || len(r.Results) <= k {
			return
		}
		own := false
		for _, l := range sources(r.Results[k], deriveOpts{}) {
			if isFreshError(l) {
				own = true
			}
		}
		if !own {
			return
		}
		// a return that can also carry a propagated error is judged by the stores that made the fresh one: use the block of the
		// fresh error's creation when the return is shared
		var sites []ssa.Instruction
		for _, l := range sources(r.Results[k], deriveOpts{}) {
			if isFreshError(l) {
				if li, ok := l.(ssa.Instruction); ok {
					sites = append(sites, li)
				}
			}
		}
		for _, site := range sites {
			n++
			for _, m := range muts {
				if m.Block() == site.Block() && instrIndex(m) < instrIndex(site) {
					bad = c.ipos(site) + " after " + c.ipos(m)
				} else if pathAvoiding(m, func(ssa.Instruction) bool { return false }, func(i ssa.Instruction) bool { return i == site }) != nil {
					bad = c.ipos(site) + " after " + c.ipos(m)
				}
			}
		}
	})
	c.check(n > 0 && bad == "", "Z18", fname(f)+"/refused-before-anything-is-created", c.pos(f.Pos()), "the function's own refusals cannot be reached after a mutating call",
		"the refusal made at "+bad+" comes after the destination side was already changed: a copy of a directory into a missing directory of itself is refused with 'invalid' but leaves that directory behind, inside the source")
}

// c06RawRemovalOnlyOfWhatIsEmpty (Z20): "never alters or removes anything other than its destination … identically on the
// OS-backed and the in-memory backend". The backend's own Remove refuses a directory with content on the OS backend; the
// in-memory backend removes the directory and leaves its content behind, existing but out of reach of any listing. The
// layer therefore hands a path to the backend's Remove only where it is a link, not a directory, or a directory found empty.
func (c *Ctx) c06RawRemovalOnlyOfWhatIsEmpty() {
	c.rule("Z20", "the backend's Remove is handed a path only where it is a symbolic link, not a directory, or a directory just found empty (the in-memory backend removes a directory with content and orphans that content)", 4)
	fns := c.srcFuncs(fsPkgRel)
	isCallTo := func(v ssa.Value, names ...string) (*ssa.Call, bool) {
		v = resolveValue(v)
		if ex, ok := v.(*ssa.Extract); ok {
			v = ex.Tuple
		}
		cl, ok := v.(*ssa.Call)
		if !ok {
			return nil, false
		}
		nm := ""
		if n, _, ok := fsMethodCall(cl); ok {
			nm = n
		} else if g := staticCallee(&cl.Call); g != nil {
			nm = g.Name()
		}
		for _, n := range names {
			if nm == n {
				return cl, true
			}
		}
		return nil, false
	}
	pathArg := func(cl *ssa.Call) ssa.Value {
		if _, a, ok := fsMethodCall(cl); ok && len(a) > 0 {
			return a[0]
		}
		for _, a := range cl.Call.Args {
			if a.Type().String() == "string" {
				return a
			}
		}
		return nil
	}
	for _, f := range fns {
		if f.Blocks == nil {
			continue
		}
		n := 0
		allInstrs(f, func(in ssa.Instruction) {
			rem, ok := in.(*ssa.Call)
			if !ok || !rem.Call.IsInvoke() || rem.Call.Method.Name() != "Remove" || len(rem.Call.Args) == 0 {
				return
			}
			if _, ok := fieldLoad(rem.Call.Value, "VFS", "vfs"); !ok {
				return
			}
			p := rem.Call.Args[0]
			key := fname(f) + "/raw-removal"
			if n > 0 {
				key += "#" + strconv.Itoa(n)
			}
			n++
			c.FuncsSeen[fname(f)] = true
			if onBoolSide(rem, true, func(v ssa.Value) bool { _, ok := isCallTo(v, "IsSymLink"); return ok }) {
				c.ok("Z20", key, c.ipos(rem), "reached only where the path was found to be a symbolic link")
				return
			}
			// emptiness measurements of the same path
			var es []*ssa.Call
			allInstrs(f, func(i2 ssa.Instruction) {
				cl, ok := i2.(*ssa.Call)
				if !ok {
					return
				}
				if _, ok := isCallTo(cl, "IsEmpty", "isDirEmpty"); !ok {
					return
				}
				if a := pathArg(cl); a == nil || !samePath(a, p) {
					return
				}
				es = append(es, cl)
			})
			if len(es) > 0 {
				// a value tested is 'the emptiness of the path' when everything it merges is the answer of such a measurement
				isEmptiness := func(v ssa.Value) bool {
					n := 0
					for _, l := range sources(v, deriveOpts{}) {
						cl, ok := isCallTo(l, "IsEmpty", "isDirEmpty")
						if !ok {
							return false
						}
						found := false
						for _, e := range es {
							if e == cl {
								found = true
							}
						}
						if !found {
							return false
						}
						n++
					}
					return n > 0
				}
				prune := func(b *ssa.BasicBlock, k int) bool {
					ifi, ok := b.Instrs[len(b.Instrs)-1].(*ssa.If)
					if !ok {
						return false
					}
					v, ts := boolTest(ifi)
					if isEmptiness(v) {
						return k == ts // found empty: fine
					}
					if cl, ok := isCallTo(v, "IsDir"); ok {
						if a := pathArg(cl); a != nil && samePath(a, p) {
							return k == 1-ts // not a directory: fine
						}
					}
					return false
				}
				bad := pathPruned(f, nil, func(ssa.Instruction) bool { return false }, func(i ssa.Instruction) bool { return i == ssa.Instruction(rem) }, prune)
				c.check(bad == nil, "Z20", key, c.ipos(rem), "every path to the removal goes over the 'empty' side of a test of the path's emptiness (or the 'not a directory' side)",
					"the removal can be reached where the directory was not found empty: the in-memory backend removes the directory and leaves its content behind — it exists but no listing shows it — and the call reports success where the OS backend answers 'directory not empty'")
				return
			}
			// not a directory by the callers' own test
			pi := -1
			for i, prm := range f.Params {
				if resolveValue(p) == ssa.Value(prm) {
					pi = i
				}
			}
			callers, guarded := 0, 0
			if pi >= 0 {
				for _, g := range fns {
					allInstrs(g, func(i2 ssa.Instruction) {
						cl, ok := i2.(*ssa.Call)
						if !ok || staticCallee(&cl.Call) != f || len(cl.Call.Args) <= pi {
							return
						}
						callers++
						arg := cl.Call.Args[pi]
						if onBoolSide(cl, false, func(v ssa.Value) bool {
							d, ok := isCallTo(v, "IsDir")
							if !ok {
								return false
							}
							a := pathArg(d)
							return a != nil && samePath(a, arg)
						}) {
							guarded++
						}
					})
				}
			}
			c.check(callers > 0 && callers == guarded, "Z20", key, c.ipos(rem), "every caller reaches the function on the 'not a directory' side of its IsDir test of that path",
				"the path handed to the backend's Remove is not known to be a link, a file or an empty directory: the in-memory backend removes a directory with its content and leaves that content behind, out of reach, where the OS backend answers 'directory not empty'")
		})
	}
}

// c06OverlapByIdentity (Z22): "a copy never changes its source, also when source and destination overlap" — whatever its
// arguments. Comparing spellings cannot see that `g` and `/abs/path/to/g`, two names of one file, or the same path on two
// filesystem objects over one disk, are one object: the guards also ask the filesystems (os.SameFile on what Stat reports).
// Decided: in CopyBetweenFSWithExclusionRegexes every copy worker lies on the 'differ' side of a call to a function that
// reaches os.SameFile and is handed the source and the resolved destination; the folder worker also on the 'not within'
// side of such a test of the destination's ancestors; in MoveBetweenFS the removal of the source lies on the 'differ' side.
func (c *Ctx) c06OverlapByIdentity() {
	c.rule("Z22", "the copy workers, and the removal of the source by a move between filesystems, are reached only where the filesystems themselves said that source and destination are different objects (os.SameFile on their Stat results), not only where the spellings differ", 3)
	identity := func(g *ssa.Function) bool {
		found := false
		seen := map[*ssa.Function]bool{}
		var visit func(h *ssa.Function, d int)
		visit = func(h *ssa.Function, d int) {
			if h == nil || seen[h] || h.Blocks == nil || d > 2 {
				return
			}
			seen[h] = true
			allInstrs(h, func(in ssa.Instruction) {
				if cc := callCommon(in); cc != nil {
					if calleeFull(cc) == "os.SameFile" {
						found = true
					}
					if k := staticCallee(cc); k != nil && inPkg(fsPkgRel)(k) {
						visit(k, d+1)
					}
				}
			})
		}
		visit(g, 0)
		return found
	}
	isIdentityTest := func(src ssa.Value) func(v ssa.Value) bool {
		return func(v ssa.Value) bool {
			cl, ok := v.(*ssa.Call)
			if !ok {
				return false
			}
			g := staticCallee(&cl.Call)
			if g == nil || !inPkg(fsPkgRel)(g) || !identity(g) {
				return false
			}
			// a predicate: it answers yes or no and nothing else
			if res := g.Signature.Results(); res.Len() != 1 || res.At(0).Type().String() != "bool" {
				return false
			}
			for _, a := range cl.Call.Args {
				if resolveValue(a) == src {
					return true
				}
			}
			return false
		}
	}
	if f := c.fnOpt(fsPkgRel, "CopyBetweenFSWithExclusionRegexes"); f != nil {
		c.FuncsSeen[fname(f)] = true
		pi := paramIndexByName(f, "src")
		if pi < 0 {
			c.violate("Z22", fname(f)+"/workers", c.pos(f.Pos()), "the copy entry point has no parameter named src any more")
		} else {
			src := ssa.Value(f.Params[pi])
			allInstrs(f, func(in ssa.Instruction) {
				cl, ok := in.(*ssa.Call)
				if !ok {
					return
				}
				g := staticCallee(&cl.Call)
				if g == nil || !(strings.HasPrefix(g.Name(), "copyFolderBetweenFS") || strings.HasPrefix(g.Name(), "copyFileBetweenFS")) {
					return
				}
				c.check(onBoolSide(cl, false, isIdentityTest(src)), "Z22", fname(f)+"/worker:"+g.Name(), c.ipos(cl), "reached only where the filesystems said source and destination differ",
					"the worker is reached on the strength of a comparison of spellings only: a copy onto the same object under a spelling that does not look alike — a relative and an absolute path, another name of the same file, the same path through another filesystem object — opens the destination for writing and truncates the source; a directory copied into itself that way is nested until the names become too long")
			})
		}
	}
	if f := c.fnOpt(fsPkgRel, "CopyBetweenFSWithExclusionRegexes"); f != nil {
		// the containment of the destination in the source directory is asked of the filesystems too: some identity test handed
		// the source walks up the ancestors of the destination (it asks in a loop)
		if pi := paramIndexByName(f, "src"); pi >= 0 {
			src := ssa.Value(f.Params[pi])
			walksUp := false
			allInstrs(f, func(in ssa.Instruction) {
				cl, ok := in.(*ssa.Call)
				if !ok || !isIdentityTest(src)(cl) {
					return
				}
				g := staticCallee(&cl.Call)
				allInstrs(g, func(i2 ssa.Instruction) {
					if c2, ok := i2.(*ssa.Call); ok && inLoop(c2) {
						if k := staticCallee(&c2.Call); (k != nil && identity(k)) || calleeFull(&c2.Call) == "os.SameFile" {
							walksUp = true
						}
					}
				})
			})
			c.check(walksUp, "Z22", fname(f)+"/containment-by-identity", c.pos(f.Pos()), "an identity test handed the source walks up the directories the destination is in",
				"whether the destination lies inside the source directory is decided from the spellings only: Copy(\"a\", \"/abs/path/to/a/b\") from that directory is not recognised as a copy into itself and nests a into a/b/a/b/… until the names become too long")
		}
	}
	if f := c.fnOpt(fsPkgRel, "MoveBetweenFS"); f != nil {
		c.FuncsSeen[fname(f)] = true
		pi := paramIndexByName(f, "src")
		if pi >= 0 {
			src := ssa.Value(f.Params[pi])
			allInstrs(f, func(in ssa.Instruction) {
				cl, ok := in.(*ssa.Call)
				if !ok {
					return
				}
				nm := ""
				if cl.Call.IsInvoke() {
					nm = cl.Call.Method.Name()
				} else if g := staticCallee(&cl.Call); g != nil {
					nm = g.Name()
				}
				if !strings.HasPrefix(nm, "Remove") && nm != "Rm" {
					return
				}
				c.check(onBoolSide(cl, false, isIdentityTest(src)), "Z22", fname(f)+"/source-kept:"+nm, c.ipos(cl), "the source is removed only where the filesystems said it is not the destination",
					"the source is removed on the strength of a comparison of spellings only: moved onto itself under a spelling that does not look alike (`m` and `/abs/path/to/m`), the copy has nothing to do and the removal deletes the only copy")
			})
		}
	}
}

// exploreForwarders is a development aid (GUCHECK_EXPLORE=forwarders): lists the pure forwarders of the module that drop or
// duplicate a parameter.
func (c *Ctx) exploreForwarders() {
	for _, sp := range c.SSAPkgs {
		if !strings.HasPrefix(sp.Pkg.Path(), modPath) {
			continue
		}
		all, bad := forwarders(c.srcFuncs(shortPkg(sp.Pkg.Path())))
		if len(all) > 0 {
			fmt.Fprintf(os.Stderr, "forwarders %s: %d\n", shortPkg(sp.Pkg.Path()), len(all))
		}
		for _, b := range bad {
			fmt.Fprintf(os.Stderr, "  BAD %s dropped=%v twice=%v at %s\n", fname(b.f), b.dropped, b.twice, c.ipos(b.call))
		}
	}
}

// c06WorkersOnlyBehindTheGuards (Z24): the bare copy workers open the destination for writing straight away: everything
// that keeps a copy from truncating its own source, and that creates the missing parent of the destination, is done by
// CopyBetweenFSWithExclusionRegexes before it calls them. Decided: the workers are called by that function and by each other
// (the folder worker recurses through the guarded function) only.
func (c *Ctx) c06WorkersOnlyBehindTheGuards() {
	c.rule("Z24", "the bare copy workers (copyFileBetweenFS…, copyFolderBetweenFS…) are called only by the guarded entry point CopyBetweenFSWithExclusionRegexes and by the move fall-back for files: no variant reaches them around the overlap guards and the creation of the destination's parent", 1)
	n := 0
	bad := ""
	for _, f := range c.srcFuncs(fsPkgRel) {
		allInstrs(f, func(in ssa.Instruction) {
			cc := callCommon(in)
			if cc == nil {
				return
			}
			g := staticCallee(cc)
			if g == nil || !(strings.HasPrefix(g.Name(), "copyFileBetweenFS") || strings.HasPrefix(g.Name(), "copyFolderBetweenFS")) {
				return
			}
			n++
			switch outermost(f).Name() {
			case "CopyBetweenFSWithExclusionRegexes":
			default:
				if strings.HasPrefix(outermost(f).Name(), "copyFileBetweenFS") || strings.HasPrefix(outermost(f).Name(), "copyFolderBetweenFS") {
					return
				}
				bad = c.ipos(in) + " (" + fname(outermost(f)) + ")"
			}
		})
	}
	c.check(n >= 2 && bad == "", "Z24", fsPkgRel+"/workers-behind-the-guards", "-", "the workers are called by the guarded entry point (and by each other) only",
		"a copy worker is called directly at "+bad+": that variant copies without the guards — onto itself (`f` to `f`, `d/f` to `d/./f`, a hard link) it truncates its source on the OS backend, and it does not create the missing parent directory of the destination, which the in-memory backend creates by itself: the two backends part")
}

// c06CancellationIsReported (Z25): "Whatever its arguments, a call terminates … on success, failure or cancellation" and "the
// values returned, the error kinds … are those of the reference model": a listing or a walk that was cancelled half-way says
// so; it does not hand back what it had got to as if it were the whole. Decided for package filesystem (the lock apart):
// from the side where a context gate (DetermineContextError) answered an error, every return that can be reached hands that
// error back — a `break` out of the loop to a plain `return nil` does not.
func (c *Ctx) c06CancellationIsReported() {
	c.rule("Z25", "in package filesystem, where a context gate answered an error every return that can be reached from there hands that error back: an operation cancelled half-way never reports success with a partial result", 40)
	for _, f := range c.srcFuncs(fsPkgRel) {
		if f.Blocks == nil || strings.HasSuffix(c.Fset.Position(f.Pos()).Filename, "lockfile.go") {
			continue
		}
		k := f.Signature.Results().Len() - 1
		if k < 0 || !isErrorType(f.Signature.Results().At(k).Type()) {
			continue
		}
		n := 0
		allInstrs(f, func(in ssa.Instruction) {
			g, ok := in.(*ssa.Call)
			if !ok || !strings.HasSuffix(calleeFull(&g.Call), "parallelisation.DetermineContextError") {
				return
			}
			var e ssa.Value = g
			bad := ""
			tested := false
			for _, b := range f.Blocks {
				ifi, ok := b.Instrs[len(b.Instrs)-1].(*ssa.If)
				if !ok {
					continue
				}
				x, nilSucc, isNil := nilTest(ifi)
				if !isNil || !sameValue(x, e) {
					continue
				}
				tested = true
				start := b.Succs[1-nilSucc]
				other := func(i ssa.Instruction) bool {
					r, ok := i.(*ssa.Return)
					if !ok || len(r.Results) <= k {
						return false
					}
					for _, l := range sources(r.Results[k], deriveOpts{through: func(n string) bool { return strings.Contains(strings.ToLower(n), "convert") }}) {
						if l == e || sameValue(l, e) {
							return false
						}
					}
					// results kept in memory (deferred calls): the stored value decides
					if u, isLoad := r.Results[k].(*ssa.UnOp); isLoad {
						if a, isAlloc := u.X.(*ssa.Alloc); isAlloc {
							for _, st := range storesToDeep(a) {
								if st == e || sameValue(st, e) {
									return false
								}
							}
						}
					}
					return true
				}
				var hit ssa.Instruction
				if other(start.Instrs[0]) {
					hit = start.Instrs[0]
				} else {
					hit = pathPruned(f, start.Instrs[0], func(ssa.Instruction) bool { return false }, other, nil)
				}
				if hit != nil {
					bad = c.ipos(hit)
				}
			}
			if !tested {
				return
			}
			key := fname(outermost(f)) + "/cancelled-is-reported"
			if f.Parent() != nil {
				key = fname(f) + "/cancelled-is-reported"
			}
			if n > 0 {
				key += "#" + strconv.Itoa(n)
			}
			n++
			c.FuncsSeen[fname(outermost(f))] = true
			c.check(bad == "", "Z25", key, c.ipos(g), "every return beyond the failing side of the gate hands the context error back",
				"from the side where the context was found ended the function can reach the return at "+bad+", which reports something else — success, typically, after a `break` out of the loop: a listing or a walk cancelled half-way returns a partial result and no error")
		})
	}
}

// c06IntoRuleAppliedOnce (Z26): "the resulting tree is that of the reference model" — a copy onto an existing directory goes
// *into* it (cp -r): CopyBetweenFSWithExclusionRegexes resolves an existing directory destination to Join(dest, Base(src))
// itself. A caller inside the package that copies the children of a folder hands it the folder's destination, not that
// destination already joined with the child's name: the name would be appended twice whenever the child's directory
// exists at the destination (a second copy over a first one lands in dest/child/child and leaves dest/child stale).
func (c *Ctx) c06IntoRuleAppliedOnce() {
	c.rule("Z26", "inside package filesystem the destination handed to the guarded copy (which appends the source's base name to an existing directory itself) is not already joined with the name the source was joined with: the 'into' rule is applied once", 1)
	guarded := c.fnOpt(fsPkgRel, "CopyBetweenFSWithExclusionRegexes")
	if guarded == nil || len(guarded.Params) < 5 {
		return
	}
	si, di := paramIndexByName(guarded, "src"), paramIndexByName(guarded, "dest")
	if si < 0 || di < 0 {
		c.undecided("Z26", fsPkgRel+"/guarded-copy-parameters", c.pos(guarded.Pos()), "the guarded copy no longer has parameters named src and dest")
		return
	}
	n := 0
	for _, f := range c.srcFuncs(fsPkgRel) {
		if f.Blocks == nil || f == guarded {
			continue
		}
		allInstrs(f, func(in ssa.Instruction) {
			cl, ok := in.(*ssa.Call)
			if !ok || staticCallee(&cl.Call) != guarded || !inLoop(cl) {
				return
			}
			// the names joined onto the source and onto the destination
			joined := func(v ssa.Value) map[ssa.Value]bool {
				out := map[ssa.Value]bool{}
				for _, l := range sources(v, deriveOpts{through: func(g string) bool { return strings.HasSuffix(g, "filepath.Join") }}) {
					if _, isParam := resolveValue(l).(*ssa.Parameter); !isParam {
						out[resolveValue(l)] = true
					}
				}
				return out
			}
			sj, dj := joined(cl.Call.Args[si]), joined(cl.Call.Args[di])
			twice := false
			for v := range sj {
				if dj[v] {
					twice = true
				}
			}
			key := fname(outermost(f)) + "/child-copied-into-the-folders-destination"
			if n > 0 {
				key += "#" + strconv.Itoa(n)
			}
			n++
			c.FuncsSeen[fname(outermost(f))] = true
			c.check(!twice, "Z26", key, c.ipos(cl), "the child is copied into the folder's own destination",
				"the child is handed to the guarded copy with a destination that already ends with the child's name: the guarded copy appends the base name of its source to a destination that is an existing directory (the cp -r 'into' rule), so wherever dest/child exists as a directory — a second copy of a tree over the first — the content lands in dest/child/child and dest/child keeps its stale files; the resulting tree is not that of the reference model")
		})
	}
}

// c06NothingCreatedForACopyThatWillBeRefused (Z27): "a copy never changes its source, also when source and destination
// overlap". The variants that prepare the destination themselves (CopyToDirectory creates the directory it copies into)
// and then hand source and destination to the copy: what they create from the destination parameter is created only after
// the overlap of the two was looked at — the copy refuses a directory copied into itself, and a refusal that comes after
// the directory was made leaves that directory inside the source (the defect F91 of the pinned sources, repaired).
func (c *Ctx) c06NothingCreatedForACopyThatWillBeRefused() {
	c.rule("Z27", "a variant of Copy that creates something at its destination parameter before it hands source and destination to the copy does so only after the overlap of the two was examined (isWithinDirectory): a copy that is refused leaves nothing inside its source", 1)
	mutating := map[string]bool{"MkDir": true, "MkDirAll": true, "CreateFile": true, "WriteFile": true, "Touch": true}
	for _, f := range c.srcFuncs(fsPkgRel) {
		if f.Blocks == nil || f.Parent() != nil || !strings.HasPrefix(outermost(f).Name(), "Copy") {
			continue
		}
		si := paramIndexByName(f, "src")
		di := -1
		for i, p := range f.Params {
			if p.Type().String() == "string" && strings.HasPrefix(p.Name(), "dest") {
				di = i
			}
		}
		if si < 0 || di < 0 {
			continue
		}
		derives := func(v ssa.Value, p *ssa.Parameter) bool {
			for _, l := range sources(v, deriveOpts{through: func(string) bool { return true }}) {
				if resolveValue(l) == ssa.Value(p) {
					return true
				}
			}
			return false
		}
		var copyCall *ssa.Call
		var creates, examined []*ssa.Call
		allInstrs(f, func(in ssa.Instruction) {
			cl, ok := in.(*ssa.Call)
			if !ok {
				return
			}
			if nm, args, isFs := fsMethodCall(cl); isFs {
				if mutating[nm] && len(args) > 0 && derives(args[0], f.Params[di]) {
					creates = append(creates, cl)
				}
				if strings.HasPrefix(nm, "Copy") {
					hasS, hasD := false, false
					for _, a := range args {
						hasS = hasS || derives(a, f.Params[si])
						hasD = hasD || derives(a, f.Params[di])
					}
					if hasS && hasD {
						copyCall = cl
					}
				}
				return
			}
			if g := staticCallee(&cl.Call); g != nil {
				if g.Name() == "isWithinDirectory" {
					examined = append(examined, cl)
				}
				if strings.HasPrefix(g.Name(), "Copy") && g != f {
					hasS, hasD := false, false
					for _, a := range cl.Call.Args {
						hasS = hasS || derives(a, f.Params[si])
						hasD = hasD || derives(a, f.Params[di])
					}
					if hasS && hasD {
						copyCall = cl
					}
				}
			}
		})
		if copyCall == nil || len(creates) == 0 {
			continue
		}
		c.FuncsSeen[fname(f)] = true
		bad := ""
		for _, m := range creates {
			if !dominates(m, copyCall) {
				continue
			}
			okM := false
			for _, e := range examined {
				if dominates(e, m) || onBoolSideOfCall(e, m) {
					okM = true
				}
			}
			if !okM {
				bad = c.ipos(m)
			}
		}
		c.check(bad == "", "Z27", fname(f)+"/nothing-created-before-the-overlap-is-examined", c.pos(f.Pos()), "what is created at the destination before the copy follows the examination of the overlap",
			"the call at "+bad+" creates the destination before anything looked at whether it lies inside the source: the copy that follows refuses to copy a directory into itself, but the directory made for it stays — CopyToDirectory(a, a/sub) answers 'invalid' and leaves a/sub inside its source")
	}
}

// onBoolSideOfCall: the call e is part of a condition (short-circuit chains included) one side of which leads to m: e was
// evaluated on some path before m and no path to m avoids the condition's block.
func onBoolSideOfCall(e *ssa.Call, m ssa.Instruction) bool {
	// the head of the short-circuit chain e belongs to dominates m
	b := e.Block()
	for len(b.Preds) == 1 {
		p := b.Preds[0]
		if _, isIf := p.Instrs[len(p.Instrs)-1].(*ssa.If); !isIf {
			break
		}
		if p.Dominates(m.Block()) {
			return true
		}
		b = p
	}
	return false
}

// c06ClimbingLoopsStopAtTheFixedPoint (Z28): "whatever its arguments, a call terminates". A loop that climbs a path with
// filepath.Dir ends where Dir has nothing left to remove — Dir(p) == p, which is "/" for an absolute path, "." for a
// relative or an empty one, a volume on Windows. A loop that waits for one of these spellings (the separator) never ends
// for the others: Copy(dir, "") and Copy("d", "copy") spin for ever.
func (c *Ctx) c06ClimbingLoopsStopAtTheFixedPoint() {
	c.rule("Z28", "a loop of package filesystem that climbs a path with filepath.Dir has an exit on Dir(p) == p (the fixed point, whatever the spelling of the path), not only on a comparison with a constant root", 1)
	for _, f := range c.srcFuncs(fsPkgRel) {
		if f.Blocks == nil {
			continue
		}
		n := 0
		allInstrs(f, func(in ssa.Instruction) {
			phi, ok := in.(*ssa.Phi)
			if !ok || phi.Type().String() != "string" {
				return
			}
			climbs := false
			for _, e := range phi.Edges {
				if cl, ok := e.(*ssa.Call); ok && calleeFull(&cl.Call) == "path/filepath.Dir" && len(cl.Call.Args) == 1 && cl.Call.Args[0] == ssa.Value(phi) {
					climbs = true
				}
			}
			if !climbs {
				return
			}
			key := fname(outermost(f)) + "/climbing-loop-stops-at-the-fixed-point"
			if n > 0 {
				key += "#" + strconv.Itoa(n)
			}
			n++
			c.FuncsSeen[fname(outermost(f))] = true
			// an exit test Dir(p) == p
			fixed := false
			allInstrs(f, func(j ssa.Instruction) {
				bo, ok := j.(*ssa.BinOp)
				if !ok || (bo.Op != token.EQL && bo.Op != token.NEQ) {
					return
				}
				for _, pair := range [][2]ssa.Value{{bo.X, bo.Y}, {bo.Y, bo.X}} {
					if cl, ok := pair[0].(*ssa.Call); ok && calleeFull(&cl.Call) == "path/filepath.Dir" && len(cl.Call.Args) == 1 && cl.Call.Args[0] == pair[1] {
						if pair[1] == ssa.Value(phi) {
							fixed = true
						}
					}
				}
			})
			c.check(fixed, "Z28", key, c.ipos(phi), "the loop has an exit where filepath.Dir returns its argument",
				"the loop climbs with filepath.Dir and has no exit on Dir(p) == p: it ends only where the path takes a particular spelling (the separator), which a relative path, an empty name or a Windows volume never takes — filepath.Dir settles on \".\" and the call never returns: Copy(dir, \"\") and Copy(\"d\", \"copy\") of a directory spin for ever")
		})
	}
}

// c06MoveOntoItselfWhateverTheKind (Z29): "a move never alters or removes anything other than its source and destination …
// identically on the OS-backed and the in-memory backend". MoveBetweenFS copies and then removes its source; where the
// source already is the entry of that name in the destination directory the copy has nothing to do and the removal would
// delete the only copy. The guard against that goes by the paths (Join(dest, Base(src)) == src) for files and directories
// alike: it does not ask what kind of thing the source is (the defect F92 of the pinned sources, repaired: directories
// were left to the backend's own 'same file' test, which the in-memory backend cannot make).
func (c *Ctx) c06MoveOntoItselfWhateverTheKind() {
	c.rule("Z29", "the guard of MoveBetweenFS against moving an entry into the directory it already sits in compares paths whatever the kind of the source: the helper that makes the comparison does not ask whether the source is a directory", 1)
	mv := c.fnOpt(fsPkgRel, "MoveBetweenFS")
	if mv == nil {
		return
	}
	c.FuncsSeen[fname(mv)] = true
	// the helper(s) of the package the guard calls with the source and the destination, and MoveBetweenFS itself
	cands := []*ssa.Function{mv}
	allInstrs(mv, func(in ssa.Instruction) {
		if cl, ok := in.(*ssa.Call); ok {
			if g := staticCallee(&cl.Call); g != nil && inPkg(fsPkgRel)(g) && g.Blocks != nil && g.Signature.Results().Len() == 1 && g.Signature.Results().At(0).Type().String() == "bool" {
				cands = append(cands, g)
			}
		}
	})
	compares := false
	bad := ""
	for _, g := range cands {
		si := paramIndexByName(g, "src")
		// the comparison Join(dest, Base(src)) == src
		has := false
		allInstrs(g, func(in ssa.Instruction) {
			bo, ok := in.(*ssa.BinOp)
			if !ok || bo.Op != token.EQL || bo.X.Type().String() != "string" {
				return
			}
			viaBase := false
			for _, side := range []ssa.Value{bo.X, bo.Y} {
				sources(side, deriveOpts{through: func(n string) bool {
					if strings.HasSuffix(n, "filepath.Base") {
						viaBase = true
					}
					return true
				}})
			}
			if viaBase {
				has = true
			}
		})
		if !has {
			continue
		}
		compares = true
		if g == mv || si < 0 {
			continue
		}
		allInstrs(g, func(in ssa.Instruction) {
			cl, ok := in.(*ssa.Call)
			if !ok {
				return
			}
			if nm, args, isFs := fsMethodCall(cl); isFs && (nm == "IsDir" || nm == "IsFile") && len(args) > 0 && resolveValue(args[0]) == ssa.Value(g.Params[si]) {
				bad = c.ipos(cl) + " (" + nm + " of the source in " + fname(g) + ")"
			}
		})
	}
	key := fname(mv) + "/onto-itself-whatever-the-kind"
	if !compares {
		c.violate("Z29", key, c.pos(mv.Pos()), "MoveBetweenFS no longer compares Join(dest, Base(src)) with src before it copies and removes: an entry moved into the directory it already sits in is copied onto itself and then deleted")
		return
	}
	c.check(bad == "", "Z29", key, c.pos(mv.Pos()), "the comparison is made for files and directories alike",
		"the guard asks what kind of thing the source is at "+bad+": a directory moved into the directory it already sits in (MoveBetweenFS(d/e, d)) is left to the backend's own 'same file' test, which the in-memory backend cannot make — the copy finds nothing to do, the source is then removed, and d/e is gone with its content while the OS backend leaves it alone")
}

// c06RelativePathsAreThoseOfTheReference (Z30): "the values returned by … path conversion are those of the reference model"
// (filepath.Rel, i.e. realpath --relative-to). Every path ConvertToRelativePath hands back is what filepath.Rel answered:
// a short cut that trims the root off a path which starts with its spelling does not stop at an element boundary — the
// sibling `lib64/b.txt` of the root `lib` comes out as `64/b.txt`, inside the root.
func (c *Ctx) c06RelativePathsAreThoseOfTheReference() {
	c.rule("Z30", "every path ConvertToRelativePath returns is the result of filepath.Rel for that path: no element of the result is built by trimming or slicing", 1)
	f := c.fnOpt(fsPkgRel, "(*VFS).ConvertToRelativePath")
	if f == nil {
		return
	}
	c.FuncsSeen[fname(f)] = true
	bad := ""
	n := 0
	allInstrs(f, func(in ssa.Instruction) {
		cl, ok := in.(*ssa.Call)
		if !ok || calleeFull(&cl.Call) != "builtin.append" || len(cl.Call.Args) != 2 || cl.Call.Args[0].Type().String() != "[]string" {
			return
		}
		for _, e := range variadicElems(cl.Call.Args[1]) {
			n++
			for _, l := range sources(e, deriveOpts{}) {
				ex, ok := l.(*ssa.Extract)
				if ok {
					if k, isCall := ex.Tuple.(*ssa.Call); isCall && calleeFull(&k.Call) == "path/filepath.Rel" && ex.Index == 0 {
						continue
					}
				}
				bad = c.ipos(cl) + " (" + c.pos(l.Pos()) + ")"
			}
		}
	})
	c.check(n > 0 && bad == "", "Z30", fname(f)+"/what-filepath-rel-answered", c.pos(f.Pos()), "the paths returned are the results of filepath.Rel",
		"a path appended to the result at "+bad+" is not what filepath.Rel answered: a short cut that trims the root's spelling off the front of a path does not stop at an element boundary — for the root `/t/lib`, `/t/lib64/b.txt` comes out as `64/b.txt` instead of `../lib64/b.txt`, and converting it back yields a path inside the root that does not exist")
}
