package main

import (
	"go/constant"
	"go/token"
	"go/types"
	"sort"
	"strconv"
	"strings"

	"golang.org/x/tools/go/ssa"
)

func init() {
	register(&propCheck{
		id:    "C06",
		level: "other",
		explanation: "Agreement of the filesystem API with a reference model over programs of calls is behavioural and is not decidable statically. Decided here are three structural clauses of the statement's second sentence: (Z1) 'leaves no file handle open — on success, failure or cancellation': for every call in package filesystem that yields a file handle (GenericOpen, OpenFile, CreateFile, TempFile, the backend's Open/Create/OpenFile, zip.File.Open, the archive-reader helpers that return the opened file), on the side where a handle exists either the handle is handed to the caller (returned, stored in a returned structure) or every path to an exit passes a Close on it — explicit, or deferred on that path; (Z2) 'a copy never changes its source': in the copy call graph every mutating filesystem method is invoked on the destination filesystem parameter, never on the source one, and the source handle is only read; (Z3) a move removes its source only on the nil side of the copy/rename it falls back to. Decided on SSA; nothing is executed. (Z4) 'the resulting tree matches the model' needs every write to replace: a handle opened for writing with O_CREATE carries O_TRUNC (or O_APPEND/O_EXCL). Not decided: values returned, error kinds, resulting trees, termination, behaviour when source and destination overlap on the same filesystem.",
		run:   runC06,
		thoroughConfigs: []string{"darwin/amd64", "windows/amd64"},
		assumptions: []string{
			"descriptors opened inside afero itself or by gopsutil's disk.Usage are outside the rule",
		},
	})
}

// openers: callee name → index of the handle in the result tuple (-1: single result)
var c06Openers = map[string]int{
	"GenericOpen": 0, "OpenFile": 0, "CreateFile": 0, "TempFile": 0, "TempFileInTempDir": 0,
	"Open": 0, "Create": 0, // afero.Fs / zip.File
	"newZipReader": 1, "newTarReader": 1,
}

func runC06(c *Ctx) {
	c.rule("Z1", "every file handle obtained inside package filesystem is closed on every path to an exit, or handed to the caller", 15)
	c.rule("Z2", "copy: mutating filesystem methods are invoked on the destination filesystem only; the source handle is only read", 3)
	c.rule("Z3", "move: the source is removed only after the copy/rename it depends on succeeded", 3)

	eff := c.computeEffects()
	_ = eff
	for _, f := range c.srcFuncs(fsPkgRel) {
		if strings.HasSuffix(c.Fset.Position(f.Pos()).Filename, "testing.go") {
			continue
		}
		c.c06Handles(f)
	}
	c.c06CopySource()
	c.c06MoveOrder()
	c.c06WritersReplace()
}

// c06WritersReplace: "a write to a path replaces its content" in the reference model. A handle opened for
// writing with O_CREATE but without O_TRUNC, O_APPEND or O_EXCL writes from offset 0 into whatever is already
// there and leaves the old tail behind whenever the new content is shorter.
func (c *Ctx) c06WritersReplace() {
	c.rule("Z4", "a handle opened in package filesystem for writing with O_CREATE also carries O_TRUNC (or O_APPEND / O_EXCL): a write replaces the content, it does not overlay it", 2)
	osp := c.Prog.ImportedPackage("os")
	if osp == nil {
		c.fatalf("package os not loaded")
	}
	flag := func(n string) int64 {
		k, _ := osp.Pkg.Scope().Lookup(n).(*types.Const)
		if k == nil {
			c.fatalf("os.%s not found", n)
		}
		v, _ := constant.Int64Val(k.Val())
		return v
	}
	oW, oRW, oC, oT, oA, oE := flag("O_WRONLY"), flag("O_RDWR"), flag("O_CREATE"), flag("O_TRUNC"), flag("O_APPEND"), flag("O_EXCL")
	for _, f := range c.srcFuncs(fsPkgRel) {
		if strings.HasSuffix(c.Fset.Position(f.Pos()).Filename, "testing.go") {
			continue
		}
		n := 0
		allInstrs(f, func(in ssa.Instruction) {
			cl, ok := in.(*ssa.Call)
			if !ok {
				return
			}
			name := ""
			if cl.Call.IsInvoke() {
				name = cl.Call.Method.Name()
			} else if g := staticCallee(&cl.Call); g != nil {
				name = g.Name()
			}
			if name != "OpenFile" {
				return
			}
			args := cl.Call.Args
			if !cl.Call.IsInvoke() && cl.Call.Signature().Recv() != nil {
				args = args[1:]
			}
			if len(args) != 3 {
				return
			}
			fl, isConst := constInt(args[1])
			if !isConst {
				return // a forwarder: the flags are its caller's
			}
			if fl&oC == 0 || fl&(oW|oRW) == 0 {
				return
			}
			n++
			key := fname(outermost(f)) + "/open-for-replace"
			if n > 1 {
				key += "#" + strconv.Itoa(n)
			}
			c.FuncsSeen[fname(outermost(f))] = true
			c.check(fl&(oT|oA|oE) != 0, "Z4", key, c.pos(cl.Pos()),
				"opened with O_CREATE and O_TRUNC/O_APPEND/O_EXCL",
				"opened for writing with O_CREATE but without O_TRUNC (nor O_APPEND/O_EXCL): when the path already holds longer content, the write starts at offset 0 and the old tail stays — the content read back is not the content written")
		})
	}
}

func openerCall(in ssa.Instruction) (cl *ssa.Call, idx int, ok bool) {
	cl, isCall := in.(*ssa.Call)
	if !isCall {
		return nil, 0, false
	}
	var name string
	if cl.Call.IsInvoke() {
		rt := cl.Call.Value.Type().String()
		if !(strings.HasSuffix(rt, "filesystem.FS") || strings.HasSuffix(rt, "filesystem.ICloseableFS") || strings.HasSuffix(rt, "afero.Fs")) {
			return nil, 0, false
		}
		name = cl.Call.Method.Name()
	} else {
		g := staticCallee(&cl.Call)
		if g == nil {
			return nil, 0, false
		}
		n := calleeFull(&cl.Call)
		switch {
		case g.Signature.Recv() != nil && isVFSPtr(g.Signature.Recv().Type()):
			name = g.Name()
		case n == "(*archive/zip.File).Open":
			name = "Open"
		case n == "github.com/spf13/afero.TempFile":
			name = "TempFile"
		case inPkg(fsPkgRel)(g) && (g.Name() == "newZipReader" || g.Name() == "newTarReader"):
			name = g.Name()
		default:
			return nil, 0, false
		}
	}
	i, known := c06Openers[name]
	if !known {
		return nil, 0, false
	}
	// must return (…handle…, error)
	res := cl.Call.Signature().Results()
	if res.Len() < 2 || !isErrorType(res.At(res.Len()-1).Type()) {
		return nil, 0, false
	}
	return cl, i, true
}

func (c *Ctx) c06Handles(f *ssa.Function) {
	allInstrs(f, func(in ssa.Instruction) {
		cl, idx, ok := openerCall(in)
		if !ok {
			return
		}
		c.FuncsSeen[fname(outermost(f))] = true
		var h ssa.Value
		for _, r := range *cl.Referrers() {
			if ex, ok := r.(*ssa.Extract); ok && ex.Index == idx {
				h = ex
			}
		}
		key := fname(outermost(f)) + "/open:" + short(calleeNameOf(cl))
		if h == nil {
			// result discarded or the tuple returned as a whole
			tail := false
			for _, r := range *cl.Referrers() {
				if _, ok := r.(*ssa.Return); ok {
					tail = true
				}
			}
			if tail {
				c.ok("Z1", key, c.ipos(cl), "handle returned to the caller")
			} else {
				c.violate("Z1", key, c.ipos(cl), "the handle returned by "+short(calleeNameOf(cl))+" is discarded: it can never be closed")
			}
			return
		}
		isH := func(v ssa.Value) bool {
			if v == nil {
				return false
			}
			r := resolveValue(v)
			if r == h {
				return true
			}
			for _, l := range sources(v, deriveOpts{}) {
				if l == h {
					return true
				}
			}
			return false
		}
		// escapes?
		escapes := false
		allInstrs(f, func(j ssa.Instruction) {
			switch x := j.(type) {
			case *ssa.Return:
				for _, rv := range x.Results {
					if isH(rv) {
						escapes = true
					}
				}
			case *ssa.Store:
				if _, isField := x.Addr.(*ssa.FieldAddr); isField && isH(x.Val) {
					escapes = true
				}
			case *ssa.Call:
				n := calleeFull(&x.Call)
				if strings.HasSuffix(n, "filesystem.convertToExtendedFile") || strings.HasSuffix(n, "filesystem.convertFile") || strings.Contains(n, "NewCloseableVirtualFileSystem") ||
					strings.HasSuffix(n, "changeFilePermissionsToWritable") {
					for _, a := range x.Call.Args {
						if isH(a) {
							escapes = true
						}
					}
				}
			}
		})
		if escapes {
			c.ok("Z1", key, c.ipos(cl), "handle handed to the caller / wrapped into the returned object")
			return
		}
		// must-close on every path where a handle exists
		errs := errResultsOf(cl)
		isClose := func(j ssa.Instruction) bool {
			switch x := j.(type) {
			case *ssa.Call:
				if x.Call.IsInvoke() && x.Call.Method.Name() == "Close" && isH(x.Call.Value) {
					return true
				}
			case *ssa.Defer:
				if x.Call.IsInvoke() && x.Call.Method.Name() == "Close" && isH(x.Call.Value) {
					return true
				}
				if g := staticCallee(&x.Call); g != nil {
					found := false
					allInstrs(g, func(k ssa.Instruction) {
						if cc, ok := k.(*ssa.Call); ok && cc.Call.IsInvoke() && cc.Call.Method.Name() == "Close" && isH(cc.Call.Value) {
							found = true
						}
					})
					return found
				}
			}
			return false
		}
		prune := func(b *ssa.BasicBlock, k int) bool {
			ifi, ok := b.Instrs[len(b.Instrs)-1].(*ssa.If)
			if !ok {
				return false
			}
			if x, nilSucc, ok := nilTest(ifi); ok {
				// error of the opener (possibly converted) non-nil → no handle
				if idx == 0 && len(errs) > 0 && (sameValue(x, errs[0]) || derivesOnly(x, errs[0])) {
					// (the archive-reader helpers hand back the opened file together with an error: no pruning for them)
					return k != nilSucc
				}
				// handle == nil → no handle
				if isH(x) {
					return k == nilSucc
				}
			}
			return false
		}
		esc := pathPruned(f, cl, isClose, isReturn, prune)
		if esc == nil {
			c.ok("Z1", key, c.ipos(cl), "closed (explicitly or by a defer registered on the path) before every exit")
		} else {
			c.violate("Z1", key, c.ipos(cl), "a path from this open reaches the exit at "+c.ipos(esc)+" with the handle still open and no deferred Close registered: the descriptor leaks on that path (error or cancellation paths included)")
		}
	})
}

// Z2
func (c *Ctx) c06CopySource() {
	names := []string{"CopyBetweenFSWithExclusionRegexes", "copyFolderBetweenFSWithExclusionRegexes", "copyFileBetweenFSWithExclusionPatternsWithExclusionRegexes"}
	for _, n := range names {
		f := c.fn(fsPkgRel, n)
		if f == nil {
			continue
		}
		c.FuncsSeen[fname(f)] = true
		si, di := paramIndexByName(f, "srcFs"), paramIndexByName(f, "destFs")
		if si < 0 || di < 0 {
			c.fatalf("C06/Z2: parameters srcFs/destFs of %s not found", n)
			continue
		}
		bad := ""
		withAnon(f, func(h *ssa.Function) {
			allInstrs(h, func(in ssa.Instruction) {
				cl, ok := in.(*ssa.Call)
				if !ok || !cl.Call.IsInvoke() {
					return
				}
				if resolveValue(cl.Call.Value) == ssa.Value(f.Params[si]) && fsMutators[cl.Call.Method.Name()] {
					bad = c.ipos(cl) + " " + cl.Call.Method.Name() + " on srcFs"
				}
			})
		})
		// the source handle is only read: it is never the destination operand of a copy nor written to
		allInstrs(f, func(in ssa.Instruction) {
			cl, ok := in.(*ssa.Call)
			if !ok {
				return
			}
			if strings.HasSuffix(calleeFull(&cl.Call), "safeio.CopyDataWithContext") || strings.HasSuffix(calleeFull(&cl.Call), "safeio.CopyNWithContext") {
				for _, l := range sources(cl.Call.Args[2], deriveOpts{}) {
					if ex, ok := l.(*ssa.Extract); ok {
						if oc, ok := ex.Tuple.(*ssa.Call); ok && oc.Call.IsInvoke() && resolveValue(oc.Call.Value) == ssa.Value(f.Params[si]) {
							bad = c.ipos(cl) + " the source handle is the destination of the copy"
						}
					}
				}
			}
		})
		c.check(bad == "", "Z2", fname(f), c.pos(f.Pos()), "mutations go to destFs only", "the copy mutates its source ("+bad+")")
	}
}

// Z3
func (c *Ctx) c06MoveOrder() {
	type spec struct {
		fn      string
		dep     []string // calls whose success the removal depends on
		removal []string
	}
	for _, sp := range []spec{
		{"(*VFS).moveFile", []string{"CopyBetweenFSWithExclusionRegexes", "CopyWithContext", "CopyBetweenFS"}, []string{"Remove", "RemoveWithContext", "Rm"}},
		{"(*VFS).moveFolder", []string{"MoveWithContext"}, []string{"RemoveWithContext", "Rm", "Remove"}},
		{"MoveBetweenFS", []string{"CopyBetweenFS", "CopyBetweenFSWithExclusionPatterns"}, []string{"RemoveWithContext", "Rm"}},
	} {
		f := c.fn(fsPkgRel, sp.fn)
		if f == nil {
			continue
		}
		c.FuncsSeen[fname(f)] = true
		var deps, rems []*ssa.Call
		allInstrs(f, func(in ssa.Instruction) {
			cl, ok := in.(*ssa.Call)
			if !ok {
				return
			}
			name := ""
			if cl.Call.IsInvoke() {
				name = cl.Call.Method.Name()
			} else if g := staticCallee(&cl.Call); g != nil {
				name = g.Name()
			}
			for _, d := range sp.dep {
				if name == d {
					deps = append(deps, cl)
				}
			}
			for _, r := range sp.removal {
				if name == r {
					rems = append(rems, cl)
				}
			}
		})
		sort.Slice(deps, func(i, j int) bool { return deps[i].Pos() < deps[j].Pos() })
		key := fname(f)
		if len(deps) == 0 || len(rems) == 0 {
			c.violate("Z3", key, c.pos(f.Pos()), "the move no longer consists of a copy/move of the content followed by the removal of the source")
			continue
		}
		good := true
		why := ""
		for _, r := range rems {
			for _, d := range deps {
				if pathPruned(f, d, func(ssa.Instruction) bool { return false }, func(in ssa.Instruction) bool { return in == ssa.Instruction(r) }, nil) == nil {
					continue
				}
				errs := errResultsOf(d)
				if len(errs) == 0 || !(onNilSide(errs[0], r) || noErrorPathTo(d, r)) {
					good = false
					why = "the removal at " + c.ipos(r) + " can run although " + short(calleeNameOf(d)) + " at " + c.ipos(d) + " failed: the source is deleted without its content having been transferred"
				}
			}
		}
		c.check(good, "Z3", key, c.ipos(rems[0]), "source removed only after the transfer succeeded", why)
	}
}

// noErrorPathTo: every path from call d to r goes through the nil side of a
// test of d's error (covers errors tested inside loops where the removal
// follows the loop).
func noErrorPathTo(d *ssa.Call, r ssa.Instruction) bool {
	errs := errResultsOf(d)
	if len(errs) == 0 {
		return false
	}
	f := d.Parent()
	prune := func(b *ssa.BasicBlock, k int) bool {
		ifi, ok := b.Instrs[len(b.Instrs)-1].(*ssa.If)
		if !ok {
			return false
		}
		if x, nilSucc, ok := nilTest(ifi); ok && (sameValue(x, errs[0]) || derivesOnly(x, errs[0])) {
			return k == nilSucc // forbid the nil side: look for a path that only uses non-nil / untested edges
		}
		return false
	}
	// is r reachable from d when the nil side of every test of d's error is forbidden?
	hit := pathPruned(f, d, func(ssa.Instruction) bool { return false }, func(in ssa.Instruction) bool { return in == r }, prune)
	if hit == nil {
		return true
	}
	// reachable without ever testing the error?
	tested := false
	for _, b := range f.Blocks {
		if ifi, ok := b.Instrs[len(b.Instrs)-1].(*ssa.If); ok {
			if x, _, ok := nilTest(ifi); ok && (sameValue(x, errs[0]) || derivesOnly(x, errs[0])) {
				tested = true
			}
		}
	}
	_ = tested
	return false
}

var _ = token.ADD
