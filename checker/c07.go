package main

import (
	"go/ast"
	"go/constant"
	"go/token"
	"go/types"
	"strconv"
	"strings"

	"golang.org/x/tools/go/ssa"
)

func init() {
	register(&propCheck{
		id:              "C07",
		level:           "other",
		explanation:     "Static necessary conditions of 'once closed, an archive filesystem serves nothing' and of the structural half of the zip round trip: (V1) every access of the backend (load of VFS.vfs) in package filesystem is dominated by the closed-resource guard and lies on the side where the guard returned nil; (V2) the closed flag and the wrapped closer are only touched under the resource's mutex, writes under the write lock; (V3) the guard answers with the 'failed condition' kind exactly when IsClosed() is true and guarded functions never turn the guard's error into success; (V4) the zip/tar filesystem constructors hand the opened archive file to the filesystem as the resource it closes, and VFS.Close closes it; (V5) Close marks the resource closed on every successful path and IsClosed reports that flag; (Z1) zip entry names are the walk paths relative to the source, directory entries end with '/', entries carry the file's modification time and the content copied is the opened source file's; (Z2) extraction restores times after the copy from the archive entry's info, and directory times after the loop on every successful path; (Z3) the name joined to the destination on extraction is the entry's own zip.FileHeader.Name, charset transcoding aside; (Z4) every way round the entry loop that creates an entry appends its path, or the paths of the nested extraction, to the list returned. Decided on SSA of the current sources; nothing is executed. Not decided: round-trip equality of trees, contents and times (value-level), behaviour of afero's zipfs/tarfs.",
		run:             runC07,
		thoroughConfigs: []string{"darwin/amd64", "windows/amd64"},
		assumptions: []string{
			"afero zipfs/tarfs refuse mutating calls themselves (the read-only wrapper is not load-bearing and therefore not checked)",
			"no race between Close and a call in flight is considered",
		},
	})
}

const fsPkgRel = "filesystem"
const vfsGuard = "(*" + modPath + "/filesystem.VFS).checkWhetherUnderlyingResourceIsClosed"

// frozen, reasoned exceptions of V1 (one symbol each)
var c07Exceptions = map[string]string{
	"filesystem.(*VFS).TempDirectory":        "afero.GetTempDir(fs.vfs, \"\") does not touch the backend for an empty sub-path (it only reads os.TempDir)",
	"filesystem.(*VFS).checkDirExists":       "unexported; only caller is Exists, after the guarded Stat on the same receiver returned a file info",
	"filesystem.(*RemoteLockFile).TryLock":   "lock acquisition creates a directory with the raw, non-recursive Mkdir (C01 needs exactly that primitive); archive backends are read-only and refuse it whether closed or not",
	"filesystem.(*VFS).RemoveWithPrivileges": "fs.vfs.(IForceRemover) is reached only after the guarded RemoveWithContext failed; archive backends do not implement IForceRemover",
}

func isVFSPtr(t types.Type) bool {
	p, ok := t.Underlying().(*types.Pointer)
	if !ok {
		return false
	}
	n, ok := types.Unalias(p.Elem()).(*types.Named)
	return ok && n.Obj().Name() == "VFS" && n.Obj().Pkg() != nil && n.Obj().Pkg().Path() == modPath+"/filesystem"
}

func runC07(c *Ctx) {
	c.tooLargeIsDecidedByTheLimits("V21")
	c.rule("V1", "every backend access (load of VFS.vfs) is dominated by checkWhetherUnderlyingResourceIsClosed() on the same filesystem and lies on the side where it returned nil (accesses inside function literals count where the literal is created)", 20)
	c.rule("V2", "closeableResource.closed / .closeableResource are read under at least the read lock and written under the write lock of closeableResource.mu", 4)
	c.rule("V3", "the guard returns an ErrCondition-kind error exactly on the IsClosed()==true side; no guarded function returns a nil error on the guard's failing side", 30)
	c.rule("V4", "NewZipFileSystem/NewTarFileSystem give the opened archive file to the filesystem as its closeable resource; the constructor wraps it; VFS.Close closes it", 4)
	c.rule("V8", "VFS.Close returns the outcome of closing its resource unfiltered (converted only): no kind of failure is turned into success", 1)
	c.rule("V9", "file times are read from FileInfo.Sys() through the times library only inside a function that recovers: for the entries of an archive filesystem Sys() is the header of the entry, not what the operating system reports, and the library panics", 1)
	c.rule("V10", "Exists(): once a directory has been opened it is reported absent only where reading it said 'not found' — never for want of entries (the read-only zip view returns no names and no error for an empty directory)", 1)
	c.rule("V5", "closeableResource.Close sets closed=true before every nil return; IsClosed returns that flag", 2)
	c.rule("Z1", "zip walker: entry name = filepath.Rel(source, path) (+\"/\" for directories), Modified = info.ModTime(), content = the opened path copied whole into the entry writer", 5)
	c.rule("Z3", "unzip: the name joined to the destination is the entry's zip.FileHeader.Name itself (charset transcoding aside)", 1)
	c.rule("V6", "a method of the filesystem that is handed an already opened file consults the closed guard before it touches that handle: a handle taken before Close() serves nothing afterwards", 4)
	c.rule("V7", "where the guard found the filesystem closed, the error returned is the guard's own ('failed condition'), not a fresh error of another kind", 30)
	c.rule("Z5", "legal names are not refused: the zip-slip tests of the extraction look for path elements equal to \"..\", never for the substring (a..b.txt, ..leading and trailing.. are names the zip side produces)", 1)
	c.rule("Z9", "zip walker: the source directory is recognised whatever its spelling (relative path \".\", or comparison with a cleaned source)", 1)
	c.rule("Z8", "zip: the outcome of closing the zip writer (which flushes the entries and writes the central directory) and the archive file reaches the error result", 2)
	c.rule("Z7", "zip: the archive is written into a handle that starts empty (CreateFile, or OpenFile with O_TRUNC / O_EXCL) — a shorter archive written over a longer one keeps the old central directory at its end", 1)
	c.rule("Z6", "extraction: the name of an entry — a path relative to the archive — is never handed to the filesystem as it is (it would be resolved against the working directory of the process); the filesystem only sees the sanitised extraction path", 1)
	c.rule("Z4", "unzip: every way round the entry loop that creates an entry appends its path (or the paths of the nested extraction) to the list returned, in that same iteration", 2)
	c.rule("Z2", "unzip: file times restored from the entry's info after the copy; directory infos recorded and restored after the loop before the successful return; no deferred close of the written handle on the successful path", 4)

	c.c07Guard()
	c.c07GuardSemantics()
	c.c07Wiring()
	c.c07Resource()
	c.c07TimesOfEntries()
	c.c07EmptyDirectoriesExist()
	c.c07ZipWalker()
	c.c07UnzipTimes()
	c.c07NamesVerbatim()
	c.c07NoProbeOfEntryNames()
	c.c07ArchiveReplaces()
	c.c07ArchiveClosed()
	c.c07Listed()
	c.c07Handles()
	c.c07DotsInNames()
	c.c07SniffingFailureIsNotAnExtractionFailure()
	c.c07NoAnswerFromAClosedFilesystem()
	c.c07TimesReportTheErrorOfStat()
	c.c07ArchivingInventsNoPattern()
	c.c07SiblingComparisonsAgree()
	c.c07DepthIsTheDepthOfThePath()
	c.filterLeavesOutOnlyWhatMatches("V20") // the obligation C08/E15: what a listing holds is decided by the patterns alone
	c.c07EmptyDirectoriesAndDirectorySizes()
}

func (c *Ctx) c07Guard() {
	for _, f := range c.srcFuncs(fsPkgRel) {
		c.FuncsSeen[fname(f)] = true
		n := 0
		allInstrs(f, func(in ssa.Instruction) {
			fa, ok := in.(*ssa.FieldAddr)
			if !ok || !isVFSPtr(fa.X.Type()) {
				return
			}
			if _, ok := fieldAddrOf(fa, "VFS", "vfs"); !ok {
				return
			}
			// constructor: store into a fresh struct, not an access
			if _, isAlloc := fa.X.(*ssa.Alloc); isAlloc {
				return
			}
			n++
			outer := outermost(f)
			key := fname(outer) + "/vfs"
			if f != outer {
				key = fname(outer) + "/vfs(in literal)"
			}
			if why, ok := c07Exceptions[fname(outer)]; ok {
				c.ok("V1", key, c.ipos(in), "reasoned exception: "+why)
				return
			}
			anchor := anchorInOuter(in)
			if anchor == nil {
				c.undecided("V1", key, c.ipos(in), "cannot locate the creation site of the enclosing function literal")
				return
			}
			var guard *ssa.Call
			allInstrs(outer, func(g ssa.Instruction) {
				call, ok := g.(*ssa.Call)
				if !ok || calleeFull(&call.Call) != vfsGuard {
					return
				}
				if !sameObject(call.Call.Args[0], fa.X) {
					return
				}
				if dominates(call, anchor) && onNilSide(call, anchor) {
					guard = call
				}
			})
			if guard != nil {
				c.ok("V1", key, c.ipos(in), "guarded at "+c.ipos(guard))
			} else {
				c.violate("V1", key, c.ipos(in), "backend access not preceded on every path by the closed-resource guard of the same filesystem: a closed archive filesystem would still be served (or the guard's verdict is ignored)")
			}
		})
	}
}

func (c *Ctx) c07GuardSemantics() {
	g := c.fn(fsPkgRel, "(*VFS).checkWhetherUnderlyingResourceIsClosed")
	if g == nil {
		return
	}
	// returns: non-nil only/always on the IsClosed()==true side
	isClosedCall := func(v ssa.Value) bool {
		call, ok := v.(*ssa.Call)
		if !ok || !call.Call.IsInvoke() || call.Call.Method.Name() != "IsClosed" {
			return false
		}
		_, ok = fieldLoad(call.Call.Value, "VFS", "resourceInUse")
		return ok
	}
	okSem := true
	detail := ""
	nret := 0
	allInstrs(g, func(in ssa.Instruction) {
		r, ok := in.(*ssa.Return)
		if !ok {
			return
		}
		nret++
		for _, l := range sources(r.Results[0], deriveOpts{}) {
			if isNilConst(l) {
				if !onBoolSide(r, false, isClosedCall) {
					okSem, detail = false, "returns nil without IsClosed() having answered false"
				}
				continue
			}
			call, isCall := l.(*ssa.Call)
			if !isCall || !strings.HasPrefix(calleeFull(&call.Call), modPath+"/commonerrors.New") {
				okSem, detail = false, "the error returned is not built by commonerrors.New*/Newf"
				continue
			}
			kind := false
			for _, a := range call.Call.Args {
				if u, ok := stripConv(a).(*ssa.UnOp); ok {
					if gl, ok := u.X.(*ssa.Global); ok && gl.Name() == "ErrCondition" {
						kind = true
					}
				}
			}
			if !kind {
				okSem, detail = false, "the error kind is not commonerrors.ErrCondition ('failed condition')"
			}
			if !onBoolSide(r, true, isClosedCall) {
				okSem, detail = false, "the error is not conditional on IsClosed()==true"
			}
		}
	})
	c.check(okSem && nret >= 2, "V3", fname(g), c.pos(g.Pos()), "ErrCondition iff resourceInUse.IsClosed()", detail)

	// no guarded function swallows the guard's error
	for _, f := range c.srcFuncs(fsPkgRel) {
		res := f.Signature.Results()
		if res.Len() == 0 || !isErrorType(res.At(res.Len()-1).Type()) {
			continue
		}
		k := res.Len() - 1
		allInstrs(f, func(in ssa.Instruction) {
			call, ok := in.(*ssa.Call)
			if !ok || calleeFull(&call.Call) != vfsGuard {
				return
			}
			key := fname(f) + "/guard-exit"
			bad := ""
			found := false
			for _, b := range f.Blocks {
				r, ok := b.Instrs[len(b.Instrs)-1].(*ssa.Return)
				if !ok || !onNonNilSide(call, r) {
					continue
				}
				found = true
				allNil := true
				for _, l := range sources(r.Results[k], deriveOpts{through: func(string) bool { return false }}) {
					if !isNilConst(l) {
						allNil = false
					}
				}
				if allNil {
					bad = c.ipos(r)
				}
			}
			if !found {
				c.violate("V3", key, c.ipos(call), "the guard's result is not followed by a return on its failing side: the verdict is ignored")
			} else if bad != "" {
				c.violate("V3", key, c.ipos(call), "return at "+bad+" reports success although the filesystem was found closed")
			} else {
				c.ok("V3", key, c.ipos(call), "failing side returns an error")
			}
		})
	}
}

func (c *Ctx) c07Wiring() {
	for _, name := range []string{"NewZipFileSystem", "NewTarFileSystem"} {
		f := c.fn(fsPkgRel, name)
		if f == nil {
			continue
		}
		var adapter, ctor *ssa.Call
		allInstrs(f, func(in ssa.Instruction) {
			if call, ok := in.(*ssa.Call); ok {
				n := calleeFull(&call.Call)
				if strings.Contains(n, "FSAdapterFromFilePath") {
					adapter = call
				}
				if strings.HasSuffix(n, "filesystem.NewCloseableVirtualFileSystem") || strings.HasSuffix(n, "filesystem.NewCloseableVirtualFileSystemWithPathSeparator") {
					ctor = call
				}
			}
		})
		good := adapter != nil && ctor != nil
		why := "constructor no longer builds the filesystem from the archive adapter"
		if good {
			fromAdapter := func(v ssa.Value, idx int) bool {
				for _, l := range sources(v, deriveOpts{}) {
					if ex, ok := l.(*ssa.Extract); ok && ex.Tuple == ssa.Value(adapter) && ex.Index == idx {
						return true
					}
				}
				return false
			}
			if !fromAdapter(ctor.Call.Args[0], 0) {
				good, why = false, "the backend given to the filesystem is not the archive adapter"
			} else if !fromAdapter(ctor.Call.Args[2], 1) {
				good, why = false, "the opened archive file is not registered as the filesystem's closeable resource: Close() cannot close it and the closed flag never becomes true"
			}
		}
		c.check(good, "V4", fname(f), c.pos(f.Pos()), "backend = adapter, resource = opened archive file", why)
	}
	// the generic constructor stores a closeable resource built from its argument
	if f := c.fn(fsPkgRel, "NewCloseableVirtualFileSystemWithPathSeparator"); f != nil {
		good := false
		allInstrs(f, func(in ssa.Instruction) {
			st, ok := in.(*ssa.Store)
			if !ok {
				return
			}
			fa, ok := st.Addr.(*ssa.FieldAddr)
			if !ok {
				return
			}
			if _, ok := fieldAddrOf(fa, "VFS", "resourceInUse"); !ok {
				return
			}
			for _, l := range sources(st.Val, deriveOpts{}) {
				if call, ok := l.(*ssa.Call); ok && strings.HasSuffix(calleeFull(&call.Call), "resource.NewCloseableResource") {
					if paramIndex(f, call.Call.Args[0]) >= 0 && onBoolSide(call, false, func(v ssa.Value) bool {
						b, ok := v.(*ssa.BinOp)
						return ok && b.Op.String() == "==" && (isNilConst(b.Y) || isNilConst(b.X))
					}) {
						good = true
					}
				}
			}
		})
		c.check(good, "V4", fname(f), c.pos(f.Pos()), "a non-nil closer is wrapped by NewCloseableResource and stored in VFS.resourceInUse",
			"a non-nil closer passed to the constructor does not end up, wrapped by NewCloseableResource, in VFS.resourceInUse")
	}
	if f := c.fn(fsPkgRel, "(*VFS).Close"); f != nil {
		good := false
		allInstrs(f, func(in ssa.Instruction) {
			if call, ok := in.(*ssa.Call); ok && call.Call.IsInvoke() && call.Call.Method.Name() == "Close" {
				if _, ok := fieldLoad(call.Call.Value, "VFS", "resourceInUse"); ok {
					good = true
				}
			}
		})
		c.check(good, "V4", fname(f), c.pos(f.Pos()), "VFS.Close closes resourceInUse", "VFS.Close no longer closes the filesystem's resource")
		// V8: "once closed serve nothing any more". The resource only marks itself closed where closing it succeeded (V5);
		// a Close() of the filesystem that turns a failure of the resource into success reports a filesystem as closed that
		// goes on serving. What VFS.Close returns is what the resource returned, converted — nothing is filtered out.
		bad := ""
		allInstrs(f, func(in ssa.Instruction) {
			r, ok := in.(*ssa.Return)
			if !ok || len(r.Results) != 1 {
				return
			}
			var walk func(v ssa.Value, depth int)
			walk = func(v ssa.Value, depth int) {
				if depth > 6 || bad != "" {
					return
				}
				switch x := stripConv(v).(type) {
				case *ssa.Call:
					if x.Call.IsInvoke() && x.Call.Method.Name() == "Close" {
						return
					}
					n := calleeFull(&x.Call)
					if strings.HasSuffix(n, "filesystem.ConvertFileSystemError") || strings.HasSuffix(n, "commonerrors.ConvertContextError") {
						walk(x.Call.Args[0], depth+1)
						return
					}
					bad = short(n) + " at " + c.ipos(x)
				case *ssa.Phi:
					for _, e := range x.Edges {
						if isNilConst(e) {
							bad = "a nil merged in at " + c.ipos(x)
							return
						}
						walk(e, depth+1)
					}
				case *ssa.Const:
					if x.IsNil() {
						bad = "a constant nil at " + c.ipos(r)
					}
				}
			}
			walk(r.Results[0], 0)
		})
		c.check(bad == "", "V8", fname(f)+"/outcome-unfiltered", c.pos(f.Pos()), "VFS.Close returns the (converted) outcome of closing the resource",
			"what VFS.Close returns goes through "+bad+": a failure to close the resource — it does not mark itself closed then (see V5) — can come out as success, and a filesystem reported closed keeps serving Stat, Ls and (for the tar view) contents")
	}
}

// c07TimesOfEntries (V9): "expose exactly the same paths, kinds, sizes …, refuse every mutating call without changing anything".
// StatTimes, and everything built on it (garbage collection, a mutating call), reaches DetermineFileTimes with the FileInfo of
// an archive entry. github.com/djherbis/times asserts that Sys() is the platform's stat structure: the call site must be
// prepared for the panic.
func (c *Ctx) c07TimesOfEntries() {
	n := 0
	for _, f := range c.srcFuncs(fsPkgRel) {
		allInstrs(f, func(in ssa.Instruction) {
			cl, ok := in.(*ssa.Call)
			if !ok || !strings.HasSuffix(calleeFull(&cl.Call), "djherbis/times.Get") {
				return
			}
			n++
			c.FuncsSeen[fname(outermost(f))] = true
			recovers := false
			allInstrs(f, func(j ssa.Instruction) {
				d, ok := j.(*ssa.Defer)
				if !ok {
					return
				}
				var lit *ssa.Function
				switch v := d.Call.Value.(type) {
				case *ssa.MakeClosure:
					lit, _ = v.Fn.(*ssa.Function)
				case *ssa.Function:
					lit = v
				}
				if lit == nil {
					return
				}
				allInstrs(lit, func(k ssa.Instruction) {
					if rc, ok := k.(*ssa.Call); ok {
						if b, isB := rc.Call.Value.(*ssa.Builtin); isB && b.Name() == "recover" {
							recovers = true
						}
					}
				})
			})
			c.check(recovers, "V9", fname(outermost(f))+"/times-from-sys", c.ipos(cl), "the function that asks the times library recovers",
				"the times library is asked about a FileInfo whose Sys() may be anything (the header of a zip or tar entry): it asserts the platform's stat structure and panics — StatTimes on an archive filesystem panics, a garbage collection over it takes the process down from a worker goroutine")
		})
	}
	if n == 0 {
		c.info("V9", fsPkgRel+"/no-times-library", "-", "the times library is not used any more")
	}
}

// c07EmptyDirectoriesExist (V10): "expose exactly the same paths, kinds …". Exists() double-checks a directory by opening it and
// reading one entry. What that read returns for an empty directory differs between backends (io.EOF on the OS and in memory;
// no names and no error on afero's zip view): the only outcome that means "not there" is an error that says so. After the
// read, the answer false is produced only on the true side of the not-found classification of its error.
func (c *Ctx) c07EmptyDirectoriesExist() {
	ex := c.fn(fsPkgRel, "(*VFS).Exists")
	if ex == nil {
		return
	}
	scope := []*ssa.Function{ex}
	for _, e := range c.outCalls(ex, false) {
		if inPkg(fsPkgRel)(e.callee) && e.callee.Signature.Results().Len() == 1 && e.callee.Signature.Results().At(0).Type().String() == "bool" {
			scope = append(scope, e.callee)
		}
	}
	n := 0
	for _, f := range scope {
		var probe *ssa.Call
		allInstrs(f, func(in ssa.Instruction) {
			if cl, ok := in.(*ssa.Call); ok && cl.Call.IsInvoke() && (cl.Call.Method.Name() == "Readdirnames" || cl.Call.Method.Name() == "Readdir" || cl.Call.Method.Name() == "ReadDir") {
				probe = cl
			}
		})
		if probe == nil {
			continue
		}
		n++
		c.FuncsSeen[fname(f)] = true
		isNotFound := func(v ssa.Value) bool {
			cl, ok := v.(*ssa.Call)
			if !ok {
				return false
			}
			nm := calleeFull(&cl.Call)
			return strings.HasSuffix(nm, "filesystem.IsPathNotExist") || nm == "os.IsNotExist" || strings.HasSuffix(nm, "commonerrors.Any") || nm == "errors.Is"
		}
		bad := ""
		checkAt := func(at ssa.Instruction, what string) {
			if !dominates(probe, at) && at.Block() != probe.Block() {
				return
			}
			if !onBoolSide(at, true, isNotFound) {
				bad = what + " at " + c.ipos(at)
			}
		}
		allInstrs(f, func(in ssa.Instruction) {
			switch x := in.(type) {
			case *ssa.Store:
				if b, isB := constBool(x.Val); isB && !b {
					checkAt(x, "false is assigned")
				}
			case *ssa.Phi:
				if x.Type().String() != "bool" {
					return
				}
				for i, e := range x.Edges {
					if b, isB := constBool(e); isB && !b {
						pred := x.Block().Preds[i]
						last := pred.Instrs[len(pred.Instrs)-1]
						if pred.Dominates(probe.Block()) && pred != probe.Block() {
							continue
						}
						if !probe.Block().Dominates(pred) {
							continue
						}
						// the edge pred → merge carries false: it must lie on the 'not found' side
						onSide := false
						for _, tb := range f.Blocks {
							ifi, ok := tb.Instrs[len(tb.Instrs)-1].(*ssa.If)
							if !ok {
								continue
							}
							v, ts := boolTest(ifi)
							if !isNotFound(v) {
								continue
							}
							if (tb == pred && tb.Succs[ts] == x.Block()) || edgeDominates(tb, ts, pred) {
								onSide = true
							}
						}
						if !onSide {
							bad = "false is merged in from " + c.ipos(last)
						}
					}
				}
			case *ssa.Return:
				if len(x.Results) == 1 {
					if b, isB := constBool(x.Results[0]); isB && !b {
						checkAt(x, "false is returned")
					}
				}
			}
		})
		c.check(bad == "", "V10", fname(f)+"/absent-only-when-not-found", c.ipos(probe), "after the directory was read, false is answered only on the 'not found' side",
			"after the directory has been opened and read, "+bad+" without the read having reported 'not found': a read that returns no names and no error — what afero's zip view does for an empty directory — makes the directory 'not exist'; empty directories vanish from the zip filesystem (Exists false, IsDir not found, Walk fails on them)")
	}
	if n == 0 {
		c.info("V10", fsPkgRel+"/exists-does-not-read-directories", "-", "Exists() does not read directories any more")
	}
}

func (c *Ctx) c07Resource() {
	const rp = "resource"
	closeF := c.fn(rp, "(*closeableResource).Close")
	isClosedF := c.fn(rp, "(*closeableResource).IsClosed")
	if closeF != nil {
		isFlagStore := func(in ssa.Instruction) bool {
			st, ok := in.(*ssa.Store)
			if !ok {
				return false
			}
			fa, ok := st.Addr.(*ssa.FieldAddr)
			if !ok {
				return false
			}
			if _, ok := fieldAddrOf(fa, "closeableResource", "closed"); !ok {
				return false
			}
			b, ok := constBool(st.Val)
			return ok && b
		}
		bad := ""
		n := 0
		allInstrs(closeF, func(in ssa.Instruction) {
			r, ok := in.(*ssa.Return)
			if !ok {
				return
			}
			for _, l := range sources(r.Results[0], deriveOpts{}) {
				if !isNilConst(l) {
					return
				}
			}
			n++
			// nil return: a closed=true store must dominate
			dom := false
			allInstrs(closeF, func(j ssa.Instruction) {
				if isFlagStore(j) && dominates(j, r) {
					dom = true
				}
			})
			if !dom {
				bad = c.ipos(r)
			}
		})
		c.check(bad == "" && n > 0, "V5", fname(closeF), c.pos(closeF.Pos()), "closed=true before every successful return",
			"successful return at "+bad+" without marking the resource closed: the filesystem keeps serving after Close()")
	}
	if isClosedF != nil {
		good := false
		allInstrs(isClosedF, func(in ssa.Instruction) {
			r, ok := in.(*ssa.Return)
			if !ok {
				return
			}
			ls := sources(r.Results[0], deriveOpts{})
			if len(ls) == 1 {
				if _, ok := fieldLoad(ls[0], "closeableResource", "closed"); ok {
					good = true
				}
			}
		})
		c.check(good, "V5", fname(isClosedF), c.pos(isClosedF.Pos()), "IsClosed returns the flag", "IsClosed does not return the closed flag")
	}
	// V2 lock discipline
	for _, f := range c.srcFuncs(rp) {
		if f.Signature.Recv() == nil || !strings.Contains(f.Signature.Recv().Type().String(), "closeableResource") {
			continue
		}
		ls := computeLockset(f)
		allInstrs(f, func(in ssa.Instruction) {
			var fa *ssa.FieldAddr
			write := false
			switch x := in.(type) {
			case *ssa.Store:
				fa, _ = x.Addr.(*ssa.FieldAddr)
				write = true
			case *ssa.UnOp:
				if x.Op.String() == "*" {
					fa, _ = x.X.(*ssa.FieldAddr)
				}
			}
			if fa == nil {
				return
			}
			field := ""
			for _, fn := range []string{"closed", "closeableResource"} {
				if _, ok := fieldAddrOf(fa, "closeableResource", fn); ok {
					field = fn
				}
			}
			if field == "" {
				return
			}
			held := ls.at(in, "mu")
			key := fname(f) + "/" + field
			if write {
				c.check(held == lockW, "V2", key+":write", c.ipos(in), "written under mu.Lock()", "field "+field+" written without the write lock of mu (held: "+held.String()+")")
			} else {
				c.check(held >= lockR, "V2", key+":read", c.ipos(in), "read under mu ("+held.String()+")", "field "+field+" read without holding mu")
			}
		})
	}
}

func (c *Ctx) c07ZipWalker() {
	f := c.fn(fsPkgRel, "(*VFS).ZipWithContextAndLimitsAndExclusionPatterns")
	if f == nil {
		return
	}
	var walker *ssa.Function
	for _, a := range f.AnonFuncs {
		if a.Signature.Params().Len() == 3 && a.Signature.Results().Len() == 1 {
			walker = a
		}
	}
	if walker == nil {
		c.violate("Z1", fname(f)+"/walker", c.pos(f.Pos()), "walk callback not found")
		return
	}
	c.FuncsSeen[fname(walker)] = true
	pathParam, infoParam := walker.Params[0], walker.Params[1]
	relOK := func(v ssa.Value, wantSlash bool) bool {
		// v derives from filepath.Rel(source, path) result 0 (+ "/" when wantSlash)
		slash := false
		rel := false
		for _, l := range sources(v, deriveOpts{}) {
			if s, ok := constString(l); ok {
				if s == "/" {
					slash = true
					continue
				}
				return false
			}
			ex, ok := l.(*ssa.Extract)
			if !ok {
				return false
			}
			call, ok := ex.Tuple.(*ssa.Call)
			if !ok || calleeFull(&call.Call) != "path/filepath.Rel" || ex.Index != 0 {
				return false
			}
			if stripConv(call.Call.Args[1]) != ssa.Value(pathParam) {
				return false
			}
			if !strings.Contains(resolveFreeVarName(call.Call.Args[0]), "source") {
				return false
			}
			rel = true
		}
		return rel && slash == wantSlash
	}
	nHeaders := 0
	allInstrs(walker, func(in ssa.Instruction) {
		st, ok := in.(*ssa.Store)
		if !ok {
			return
		}
		fa, ok := st.Addr.(*ssa.FieldAddr)
		if !ok {
			return
		}
		pt, ok := fa.X.Type().Underlying().(*types.Pointer)
		if !ok || !strings.HasSuffix(pt.Elem().String(), "archive/zip.FileHeader") {
			return
		}
		fieldName := pt.Elem().Underlying().(*types.Struct).Field(fa.Field).Name()
		switch fieldName {
		case "Name":
			nHeaders++
			// directory header iff on the true side of info.IsDir()
			isDir := onBoolSide(st, true, func(v ssa.Value) bool {
				call, ok := v.(*ssa.Call)
				return ok && call.Call.IsInvoke() && call.Call.Method.Name() == "IsDir" && stripConv(call.Call.Value) == ssa.Value(infoParam)
			})
			kind := "file"
			if isDir {
				kind = "dir"
			}
			c.check(relOK(st.Val, isDir), "Z1", fname(walker)+"/name:"+kind, c.ipos(st), "entry name is the path relative to the source",
				"entry name of the "+kind+" header is not filepath.Rel(source, path)"+map[bool]string{true: " + \"/\"", false: ""}[isDir])
		case "Modified":
			good := false
			if call, ok := st.Val.(*ssa.Call); ok && call.Call.IsInvoke() && call.Call.Method.Name() == "ModTime" && stripConv(call.Call.Value) == ssa.Value(infoParam) {
				good = true
			}
			c.check(good, "Z1", fname(walker)+"/modified", c.ipos(st), "Modified = info.ModTime()", "entry modification time is not the file's ModTime()")
		}
	})
	if nHeaders < 2 {
		c.violate("Z1", fname(walker)+"/headers", c.pos(walker.Pos()), "expected a directory header and a file header")
	}
	// every entry other than the root gets a header: no successful return of the walker before CreateHeader,
	// except the root directory itself (path == source)
	{
		isHeader := func(in ssa.Instruction) bool {
			cl, ok := in.(*ssa.Call)
			return ok && strings.HasSuffix(calleeFull(&cl.Call), "zip.Writer).CreateHeader")
		}
		isRootTest := func(v ssa.Value) bool {
			b, ok := v.(*ssa.BinOp)
			if !ok || b.Op.String() != "==" {
				return false
			}
			if (stripConv(b.X) == ssa.Value(pathParam) && strings.Contains(resolveFreeVarName(b.Y), "source")) ||
				(stripConv(b.Y) == ssa.Value(pathParam) && strings.Contains(resolveFreeVarName(b.X), "source")) {
				return true
			}
			// … or: the path relative to the source is "."
			for _, pair := range [][2]ssa.Value{{b.X, b.Y}, {b.Y, b.X}} {
				if k, isK := constString(pair[1]); isK && k == "." {
					for _, l := range sources(pair[0], deriveOpts{}) {
						if ex, isEx := l.(*ssa.Extract); isEx && ex.Index == 0 {
							if rc, isRC := ex.Tuple.(*ssa.Call); isRC && calleeFull(&rc.Call) == "path/filepath.Rel" && len(rc.Call.Args) == 2 && stripConv(rc.Call.Args[1]) == ssa.Value(pathParam) {
								return true
							}
						}
					}
				}
			}
			return false
		}
		prune := func(b *ssa.BasicBlock, k int) bool {
			ifi, ok := b.Instrs[len(b.Instrs)-1].(*ssa.If)
			if !ok {
				return false
			}
			v, ts := boolTest(ifi)
			return isRootTest(v) && k == ts
		}
		// Z9: the root is recognised whatever the spelling of the source: by its relative path, or by comparison with a
		// cleaned source (the walk reports cleaned paths; "src/" never equals "src")
		spellingFree := true
		nRoot := 0
		for _, b := range walker.Blocks {
			ifi, ok := b.Instrs[len(b.Instrs)-1].(*ssa.If)
			if !ok {
				continue
			}
			v, _ := boolTest(ifi)
			if !isRootTest(v) {
				continue
			}
			nRoot++
			bo := v.(*ssa.BinOp)
			for _, o := range []ssa.Value{bo.X, bo.Y} {
				if strings.Contains(resolveFreeVarName(o), "source") {
					// the free variable's value in the enclosing function
					cleaned := false
					if u, isU := o.(*ssa.UnOp); isU {
						o = u.X
					}
					if fv, isFV := o.(*ssa.FreeVar); isFV {
						if rv := resolveFreeVar(fv); rv != nil {
							for _, l := range sources(rv, deriveOpts{}) {
								if cl, isCall := l.(*ssa.Call); isCall && (calleeFull(&cl.Call) == "path/filepath.Clean" || calleeFull(&cl.Call) == "path/filepath.Abs") {
									cleaned = true
								}
								if ex, isEx := l.(*ssa.Extract); isEx {
									if cl, isCall := ex.Tuple.(*ssa.Call); isCall && calleeFull(&cl.Call) == "path/filepath.Abs" {
										cleaned = true
									}
								}
							}
						}
					}
					if !cleaned {
						spellingFree = false
					}
				}
			}
		}
		c.check(nRoot > 0 && spellingFree, "Z9", fname(walker)+"/root-whatever-its-spelling", c.pos(walker.Pos()), "the source itself is recognised by its relative path (or against a cleaned source)",
			"the walker recognises the source directory by comparing the walked path — which the walk cleans — with the source as the caller spelt it: for \"src/\" the source gets an entry \"./\" of its own and the extraction lists the destination directory itself among the entries created")
		esc := pathPruned(walker, nil, isHeader, func(in ssa.Instruction) bool { return isReturnOK(walker, in) }, prune)
		c.check(esc == nil, "Z1", fname(walker)+"/every-entry", c.pos(walker.Pos()), "every walked entry except the root gets a header before the walker returns successfully",
			"the walker can return successfully at "+c.iposOr(esc)+" without having written a header for the entry: that entry is missing from the archive")
	}
	// content: CopyDataWithContext(ctx, GenericOpen(path), CreateHeader(header))
	var cp *ssa.Call
	allInstrs(walker, func(in ssa.Instruction) {
		if call, ok := in.(*ssa.Call); ok && strings.HasSuffix(calleeFull(&call.Call), "safeio.CopyDataWithContext") {
			cp = call
		}
	})
	good := false
	if cp != nil {
		srcOK, dstOK := false, false
		for _, l := range sources(cp.Call.Args[1], deriveOpts{}) {
			if ex, ok := l.(*ssa.Extract); ok {
				if call, ok := ex.Tuple.(*ssa.Call); ok && strings.HasSuffix(calleeFull(&call.Call), ".GenericOpen") && stripConv(call.Call.Args[len(call.Call.Args)-1]) == ssa.Value(pathParam) {
					srcOK = true
				}
			}
		}
		for _, l := range sources(cp.Call.Args[2], deriveOpts{}) {
			if ex, ok := l.(*ssa.Extract); ok {
				if call, ok := ex.Tuple.(*ssa.Call); ok && strings.HasSuffix(calleeFull(&call.Call), "zip.Writer).CreateHeader") {
					dstOK = true
				}
			}
		}
		good = srcOK && dstOK
	}
	pos := c.pos(walker.Pos())
	if cp != nil {
		pos = c.ipos(cp)
	}
	c.check(good, "Z1", fname(walker)+"/content", pos, "whole content of the opened path copied into the entry", "the entry content is not a whole-stream copy of the file opened at the walk path into the entry writer")
}

func resolveFreeVarName(v ssa.Value) string {
	v = stripConv(v)
	if u, ok := v.(*ssa.UnOp); ok {
		v = u.X
	}
	return v.Name()
}

// c07NamesVerbatim (Z3): the round trip reproduces "the same relative paths … for any legal names". The zip side
// writes filepath.Rel (Z1); the unzip side must join exactly the entry's name to the destination: anything that
// rewrites the name first (separator "normalisation", trimming, case folding) turns a legal name such as "we\\ird"
// into a different path. Charset transcoding of non-UTF-8 names is the one admitted transformation.
func (c *Ctx) c07NamesVerbatim() {
	f := c.fn(fsPkgRel, "(*VFS).unzip")
	c.FuncsSeen[fname(f)] = true
	n := 0
	allInstrs(f, func(in ssa.Instruction) {
		cl, ok := in.(*ssa.Call)
		if !ok {
			return
		}
		g := staticCallee(&cl.Call)
		if g == nil || g.Name() != "sanitiseZipExtractPath" || len(cl.Call.Args) != 3 {
			return
		}
		n++
		key := fname(f) + "/entry-name-verbatim"
		if n > 1 {
			key += "#" + strconv.Itoa(n)
		}
		bad := ""
		ls := sources(cl.Call.Args[1], deriveOpts{through: func(n string) bool { return strings.HasSuffix(n, ".determineUnzippedFilepath") }})
		for _, l := range ls {
			if _, ok := fieldLoad(l, "FileHeader", "Name"); ok {
				continue
			}
			bad = l.String()
			if lc, isCall := l.(*ssa.Call); isCall {
				bad = "the result of " + calleeFull(&lc.Call)
			}
		}
		if len(ls) == 0 {
			bad = "nothing"
		}
		c.check(bad == "", "Z3", key, c.ipos(cl), "the name joined to the destination is zip.FileHeader.Name itself",
			"the name joined to the destination is not the entry's own name but "+bad+": a legal name containing the rewritten characters (a backslash is a legal POSIX name character) is extracted under a different relative path and the returned list names paths that were never in the tree")
	})
	if n == 0 {
		c.violate("Z3", fname(f)+"/entry-name-verbatim", c.pos(f.Pos()), "unzip no longer derives the extraction path through sanitiseZipExtractPath")
	}
}

// c07Listed (Z4): "the list of extracted paths returned names exactly the entries created" — the half that can be
// seen in the shape of the loop: nothing is created without being listed (same search as C03/W6, which asks that it
// be counted).
func (c *Ctx) c07Listed() {
	unzip := c.fn(fsPkgRel, "(*VFS).unzip")
	uzf := c.fn(fsPkgRel, "(*VFS).unzipZippedFile")
	var extraction *ssa.Call
	allInstrs(unzip, func(in ssa.Instruction) {
		if cl, ok := in.(*ssa.Call); ok && staticCallee(&cl.Call) == uzf {
			extraction = cl
		}
	})
	if extraction == nil {
		c.fatalf("C07/Z4: unzip no longer calls unzipZippedFile")
		return
	}
	hdr := loopHeaderOf(extraction)
	if hdr == nil {
		c.undecided("Z4", fname(unzip)+"/listed", c.ipos(extraction), "cannot determine the entry loop")
		return
	}
	isListAppend := func(in ssa.Instruction) bool {
		cl, ok := in.(*ssa.Call)
		if !ok {
			return false
		}
		b, isB := cl.Call.Value.(*ssa.Builtin)
		if !isB || b.Name() != "append" {
			return false
		}
		sl, isS := cl.Type().Underlying().(*types.Slice)
		if !isS {
			return false
		}
		bb, isBasic := sl.Elem().Underlying().(*types.Basic)
		return isBasic && bb.Kind() == types.String
	}
	entryPath := resolveValue(extraction.Call.Args[2])
	type site struct {
		in   *ssa.Call
		what string
	}
	sites := []site{{extraction, "extracted-file"}}
	allInstrs(unzip, func(in ssa.Instruction) {
		name, args, ok := fsMethodCall(in)
		if ok && (name == "MkDir" || name == "MkDirAll") && len(args) > 0 && resolveValue(args[0]) == entryPath && inLoop(in) {
			sites = append(sites, site{in.(*ssa.Call), "directory-entry"})
		}
	})
	for _, st := range sites {
		errs := errResultsOf(st.in)
		var errV ssa.Value
		if len(errs) > 0 {
			errV = errs[0]
		} else if isErrorType(st.in.Type()) {
			errV = st.in
		}
		prune := func(b *ssa.BasicBlock, k int) bool {
			if ifi, ok := b.Instrs[len(b.Instrs)-1].(*ssa.If); ok && errV != nil {
				if x, nilSucc, ok := nilTest(ifi); ok && sameValue(x, errV) {
					return k != nilSucc
				}
			}
			return false
		}
		hit := cyclicPathCorrelated(unzip, hdr, func(i ssa.Instruction) bool { return i == ssa.Instruction(st.in) }, isListAppend,
			func(i ssa.Instruction) bool { return isReturnOK(unzip, i) }, prune)
		c.check(hit == nil, "Z4", fname(unzip)+"/listed/"+st.what, c.ipos(st.in), "every iteration that creates this kind of entry lists it (or the nested extraction's paths)",
			"there is a way round the entry loop that creates this entry without anything having been appended to the list returned: the list does not name every entry created")
	}
}

// c07Handles (V6, V7). V1 guards every access to the backend; a method that works on a handle obtained earlier
// does not go through the backend at all (afero's tarfs keeps every entry in memory: a stale handle still reads), so
// the guard has to come before the first use of the handle. V7: the guard's verdict keeps its kind.
func (c *Ctx) c07Handles() {
	for _, f := range c.srcFuncs(fsPkgRel) {
		if f.Parent() != nil || f.Signature.Recv() == nil || !isVFSPtr(f.Signature.Recv().Type()) || f.Object() == nil || !f.Object().Exported() {
			continue
		}
		var handles []*ssa.Parameter
		for _, p := range f.Params[1:] {
			t := p.Type().String()
			if strings.HasSuffix(t, "filesystem.File") || strings.HasSuffix(t, "afero.File") {
				handles = append(handles, p)
			}
		}
		if len(handles) == 0 {
			continue
		}
		c.FuncsSeen[fname(f)] = true
		var guards []*ssa.Call
		allInstrs(f, func(in ssa.Instruction) {
			if call, ok := in.(*ssa.Call); ok && calleeFull(&call.Call) == vfsGuard && sameObject(call.Call.Args[0], f.Params[0]) {
				guards = append(guards, call)
			}
		})
		for _, h := range handles {
			key := fname(f) + "/handle:" + h.Name()
			bad := ""
			for _, r := range *h.Referrers() {
				in, ok := r.(ssa.Instruction)
				if !ok {
					continue
				}
				switch x := in.(type) {
				case *ssa.DebugRef:
					continue
				case *ssa.BinOp:
					if isNilConst(x.X) || isNilConst(x.Y) {
						continue // a nil test does not touch the handle
					}
				}
				guarded := false
				for _, g := range guards {
					if dominates(g, in) && onNilSide(g, in) {
						guarded = true
					}
				}
				if !guarded {
					bad = c.ipos(in)
				}
			}
			c.check(bad == "", "V6", key, c.pos(f.Pos()), "every use of the handle lies after the closed guard, on its nil side",
				"the handle is used at "+bad+" without the closed guard having been consulted first: a handle taken while the archive filesystem was open is still served after Close() (the tar view keeps its entries in memory)")
		}
	}
	// V7
	for _, f := range c.srcFuncs(fsPkgRel) {
		res := f.Signature.Results()
		if res.Len() == 0 || !isErrorType(res.At(res.Len()-1).Type()) {
			continue
		}
		k := res.Len() - 1
		n := 0
		allInstrs(f, func(in ssa.Instruction) {
			call, ok := in.(*ssa.Call)
			if !ok || calleeFull(&call.Call) != vfsGuard {
				return
			}
			n++
			key := fname(f) + "/guard-error-kept"
			if n > 1 {
				key += "#" + strconv.Itoa(n)
			}
			bad := ""
			for _, b := range f.Blocks {
				r, ok := b.Instrs[len(b.Instrs)-1].(*ssa.Return)
				if !ok || !onNonNilSide(call, r) {
					continue
				}
				val := returnedAlongAny(r, k)
				for _, l := range sources(val, deriveOpts{through: func(n string) bool {
					return strings.Contains(n, "/commonerrors.Wrap") || strings.Contains(n, "/commonerrors.Describe") || strings.Contains(n, "ConvertFileSystemError")
				}}) {
					if l == ssa.Value(call) || sameValue(l, call) {
						continue
					}
					if _, isC := l.(*ssa.Const); isC {
						continue
					}
					if isFreshError(l) {
						bad = c.ipos(r)
					}
				}
			}
			c.check(bad == "", "V7", key, c.ipos(call), "the failing side hands back the guard's error",
				"the return at "+bad+" replaces the guard's 'failed condition' error by a fresh error of another kind: callers that test for the closed filesystem by kind no longer recognise it")
		})
	}
}

// returnedAlongAny: result k of return r (named results spilled by a defer are loaded just before the return).
func returnedAlongAny(r *ssa.Return, k int) ssa.Value {
	return r.Results[k]
}

// c07DotsInNames (Z5): the quantifier of the round trip includes names with leading and doubled dots. A refusal
// decided by strings.Contains(path, "..") refuses them; only an element equal to ".." is a parent reference.
func (c *Ctx) c07DotsInNames() {
	n := 0
	bad := ""
	for _, name := range []string{"sanitiseZipExtractPath", "(*VFS).unzip", "(*VFS).unzipNestedZipFiles", "(*VFS).unzipZippedFile", "determineUnzippedFilepath"} {
		f := c.fnOpt(fsPkgRel, name)
		if f == nil {
			continue
		}
		c.FuncsSeen[fname(f)] = true
		n++
		allInstrs(f, func(in ssa.Instruction) {
			cl, ok := in.(*ssa.Call)
			if !ok {
				return
			}
			cn := calleeFull(&cl.Call)
			if cn != "strings.Contains" && cn != "strings.Index" && cn != "strings.Count" {
				return
			}
			if s2, isC := constString(cl.Call.Args[1]); isC && s2 == ".." {
				bad = c.ipos(cl)
			}
		})
	}
	// V18: "…reproduces the same relative paths … names over spaces, dots — including leading and doubled dots". An element of
	// an entry's name is the parent reference only where it *is* "..": the comparison is made on the element as it stands in
	// the name, not on what a clean-up (TrimSpace, ToLower, a replacement) made of it — `.. ` is a legal name that the zip
	// side archives, and refused as a zip-slip attempt it breaks the round trip.
	c.rule("V18", "in the extraction's zip-slip test an element of a name is compared with \"..\" as it stands in the name: the compared value is not the result of a call (TrimSpace, ToLower, Replace …)", 1)
	nCmp := 0
	badCmp := ""
	for _, name := range []string{"hasParentReference", "sanitiseZipExtractPath", "(*VFS).unzip", "determineUnzippedFilepath"} {
		f := c.fnOpt(fsPkgRel, name)
		if f == nil {
			continue
		}
		withAnon(f, func(h *ssa.Function) {
			allInstrs(h, func(in ssa.Instruction) {
				bo, ok := in.(*ssa.BinOp)
				if !ok || (bo.Op != token.EQL && bo.Op != token.NEQ) {
					return
				}
				for _, pair := range [][2]ssa.Value{{bo.X, bo.Y}, {bo.Y, bo.X}} {
					if k, isK := constString(pair[1]); isK && k == ".." {
						nCmp++
						c.FuncsSeen[fname(f)] = true
						if cl, isCall := stripConv(pair[0]).(*ssa.Call); isCall {
							badCmp = c.ipos(bo) + " (" + short(calleeFull(&cl.Call)) + ")"
						}
					}
				}
			})
		})
	}
	c.check(nCmp > 0 && badCmp == "", "V18", "filesystem.hasParentReference/element-compared-as-it-stands", c.pos(c.fn(fsPkgRel, "sanitiseZipExtractPath").Pos()), "the element compared with \"..\" is the element of the name itself",
		"the value compared with \"..\" at "+badCmp+" is what a call made of the element, not the element: a file or directory named `.. ` (two dots and a space — a legal name, archived as such by the zip side) is refused as a zip-slip attempt, and zipping a tree and unzipping the result fails")
	if n == 0 {
		c.fatalf("C07/Z5: extraction functions not found")
		return
	}
	c.check(bad == "", "Z5", "filesystem.unzip/dots-in-names", c.pos(c.fn(fsPkgRel, "sanitiseZipExtractPath").Pos()), "no substring test for \"..\" in the extraction path",
		"the extraction tests a path for the substring \"..\" at "+bad+": a file called a..b.txt — a legal name, archived as such by the zip side — is refused as a zip-slip attempt and the round trip fails")
}

func (c *Ctx) c07UnzipTimes() {
	f := c.fn(fsPkgRel, "(*VFS).unzipZippedFile")
	if f != nil {
		var cp, cht *ssa.Call
		allInstrs(f, func(in ssa.Instruction) {
			if call, ok := in.(*ssa.Call); ok {
				n := calleeFull(&call.Call)
				if strings.HasSuffix(n, "safeio.CopyNWithContext") {
					cp = call
				}
				if strings.HasSuffix(n, ".Chtimes") {
					cht = call
				}
			}
		})
		good := cp != nil && cht != nil && dominates(cp, cht)
		why := "no Chtimes after the copy: extracted files keep the extraction time"
		if good {
			// time arguments derive from newDefaultTimeInfo(zippedFile.FileInfo())
			for _, a := range cht.Call.Args[len(cht.Call.Args)-2:] {
				okA := false
				for _, l := range sources(a, deriveOpts{through: func(n string) bool {
					return strings.HasSuffix(n, ".AccessTime") || strings.HasSuffix(n, ".ModTime") || strings.HasSuffix(n, "newDefaultTimeInfo")
				}}) {
					if call, ok := l.(*ssa.Call); ok && isZipFileInfo(calleeFull(&call.Call)) {
						okA = true
					}
				}
				if !okA {
					good, why = false, "the times restored do not come from the archive entry's FileInfo()"
				}
			}
			// last time argument is the modification time
			if call, ok := cht.Call.Args[len(cht.Call.Args)-1].(*ssa.Call); !ok || !strings.HasSuffix(calleeFull(&call.Call), ".ModTime") {
				good, why = false, "the modification time restored is not the entry's ModTime()"
			}
		}
		if good {
			// no successful return once the destination file exists without the times having been restored
			var open ssa.Instruction
			allInstrs(f, func(in ssa.Instruction) {
				if name, _, ok := fsMethodCall(in); ok && (name == "OpenFile" || name == "CreateFile") && open == nil {
					open = in
				}
			})
			if open != nil {
				esc := pathAvoiding(open, func(in ssa.Instruction) bool { return in == ssa.Instruction(cht) }, func(in ssa.Instruction) bool { return isReturnOK(f, in) })
				if esc != nil {
					good, why = false, "the return at "+c.ipos(esc)+" can report success for an entry whose destination file was created but whose times were not restored (some entries keep the extraction time)"
				}
			}
		}
		pos := c.pos(f.Pos())
		if cht != nil {
			pos = c.ipos(cht)
		}
		c.check(good, "Z2", fname(f)+"/chtimes", pos, "Chtimes(entry times) after the copy, before every successful return", why)
		// … and once the times are set nothing touches the file any more on the successful path: a deferred Close of the handle
		// written to runs after the Chtimes, and closing updates the modification time on some backends (afero's in-memory
		// files). A deferred Close of that handle is admitted only where the error result is non-nil.
		lateClose := ""
		for _, lit := range f.AnonFuncs {
			allInstrs(lit, func(in ssa.Instruction) {
				cl, ok := in.(*ssa.Call)
				if !ok || !cl.Call.IsInvoke() || cl.Call.Method.Name() != "Close" {
					return
				}
				if !c07IsCreatedHandle(cl.Call.Value, f, 0) {
					return
				}
				// on the non-nil side of a test of f's error result?
				guarded := false
				for _, b := range lit.Blocks {
					ifi, isIf := b.Instrs[len(b.Instrs)-1].(*ssa.If)
					if !isIf {
						continue
					}
					x, nilSucc, isNil := nilTest(ifi)
					if !isNil || !isErrorType(x.Type()) {
						continue
					}
					if u, isU := x.(*ssa.UnOp); isU {
						if _, isFV := u.X.(*ssa.FreeVar); isFV && edgeDominates(b, 1-nilSucc, cl.Block()) {
							guarded = true
						}
					}
				}
				if !guarded {
					lateClose = c.ipos(cl)
				}
			})
		}
		c.check(lateClose == "", "Z2", fname(f)+"/nothing-after-the-times", pos, "no deferred Close of the written handle runs on the successful path",
			"the handle written to is closed (again) at "+lateClose+" in a deferred call, i.e. after the times of the file were restored: on backends where closing a file updates its modification time (the in-memory file system) every extracted file is dated 'now'")
	}
	g := c.fn(fsPkgRel, "(*VFS).unzip")
	if g != nil {
		// directoryInfo[filePath] = zippedFile.FileInfo() on the directory branch
		var upd *ssa.MapUpdate
		var pres *ssa.Call
		allInstrs(g, func(in ssa.Instruction) {
			if mu, ok := in.(*ssa.MapUpdate); ok {
				upd = mu
			}
			if call, ok := in.(*ssa.Call); ok && strings.HasSuffix(calleeFull(&call.Call), "preserveDirectoriesTimestamps") {
				pres = call
			}
		})
		good := upd != nil
		if good {
			good = false
			for _, l := range sources(upd.Value, deriveOpts{}) {
				if call, ok := l.(*ssa.Call); ok && isZipFileInfo(calleeFull(&call.Call)) {
					good = true
				}
			}
		}
		c.check(good, "Z2", fname(g)+"/record-dir", c.pos(g.Pos()), "directory infos recorded from the entry", "directory entry infos are not recorded for the time-stamp pass")
		// every successful return (nil error constant) is dominated by the preserve call with the map
		bad := ""
		n := 0
		k := g.Signature.Results().Len() - 1
		allInstrs(g, func(in ssa.Instruction) {
			r, ok := in.(*ssa.Return)
			if !ok {
				return
			}
			for _, l := range sources(r.Results[k], deriveOpts{through: func(string) bool { return false }}) {
				if !isNilConst(l) {
					return
				}
			}
			n++
			if pres == nil || !dominates(pres, r) || !onNilSide(pres, r) || upd == nil || stripConv(pres.Call.Args[2]) != stripConv(upd.Map) {
				bad = c.ipos(r)
			}
		})
		c.check(bad == "" && n > 0, "Z2", fname(g)+"/restore-dirs", c.pos(g.Pos()), "successful return only after preserveDirectoriesTimestamps(directoryInfo) succeeded",
			"successful return at "+bad+" without restoring the directory time stamps from the recorded infos")
	}
}

func isZipFileInfo(n string) bool {
	return strings.HasPrefix(n, "(*archive/zip.") && strings.HasSuffix(n, ").FileInfo")
}

// c07NoProbeOfEntryNames (Z6): "the list of extracted paths returned names exactly the entries created". What is listed is
// decided per entry; a decision that asks the filesystem about the entry's own name (IsZip(entry.Name), Exists(entry.Name))
// asks about a path relative to the working directory of the process — a same-named file lying there changes the answer,
// and with it the list and the count. In the extraction call graph every string handed to a method of the filesystem that
// derives from zip.FileHeader.Name derives from it through the sanitiser only.
func (c *Ctx) c07NoProbeOfEntryNames() {
	unzip := c.fn(fsPkgRel, "(*VFS).unzip")
	reach := c.reachable([]*ssa.Function{unzip}, false, func(g *ssa.Function) bool {
		if !inPkg(fsPkgRel)(g) {
			return false
		}
		o := outermost(g)
		return o.Object() == nil || !o.Object().Exported()
	})
	var fns []*ssa.Function
	for g := range reach {
		fns = append(fns, g)
	}
	sortFuncs(fns)
	n := 0
	bad := ""
	for _, g := range fns {
		allInstrs(g, func(in ssa.Instruction) {
			cl, ok := in.(*ssa.Call)
			if !ok {
				return
			}
			name, args, isFs := fsMethodCall(in)
			if !isFs {
				// unexported methods of the filesystem (isZipWithContext, …)
				h := staticCallee(&cl.Call)
				if h == nil || h.Signature.Recv() == nil || !inPkg(fsPkgRel)(h) || !strings.Contains(h.Signature.Recv().Type().String(), "VFS") {
					return
				}
				name, args = h.Name(), cl.Call.Args[1:]
			}
			for _, a := range args {
				if b, isB := a.Type().Underlying().(*types.Basic); !isB || b.Kind() != types.String {
					continue
				}
				raw := false
				for _, l := range sources(a, deriveOpts{through: func(n string) bool {
					return !strings.HasSuffix(n, ".sanitiseZipExtractPath") && (strings.HasPrefix(n, "path/filepath.") || strings.HasPrefix(n, "strings.") || strings.HasSuffix(n, ".determineUnzippedFilepath"))
				}}) {
					if _, isName := fieldLoad(l, "FileHeader", "Name"); isName {
						raw = true
					}
				}
				n++
				if raw {
					bad = c.ipos(in) + " (" + name + ")"
				}
			}
		})
	}
	c.Extra["fs_path_arguments_in_extraction"] = n
	c.check(bad == "" && n > 0, "Z6", fname(unzip)+"/entry-names-not-probed", c.pos(unzip.Pos()), "no method of the filesystem is handed an entry's own name",
		"the entry's own name is handed to the filesystem at "+bad+": it is a path relative to the archive, which the filesystem resolves against the working directory of the process — a file of that name lying there changes what the extraction lists and counts")
}

// c07ArchiveReplaces (Z7): "zipping it and unzipping the result reproduces the same relative paths…". A zip reader looks
// for the central directory from the END of the file: an archive written from offset 0 over a longer, older one is read
// back as the old archive (or as garbage). What zip.NewWriter writes into must start empty.
func (c *Ctx) c07ArchiveReplaces() {
	f := c.fnOpt(fsPkgRel, "(*VFS).ZipWithContextAndLimitsAndExclusionPatterns")
	if f == nil {
		return
	}
	key := fname(f) + "/archive-starts-empty"
	var nw *ssa.Call
	allInstrs(f, func(in ssa.Instruction) {
		if cl, ok := in.(*ssa.Call); ok && calleeFull(&cl.Call) == "archive/zip.NewWriter" {
			nw = cl
		}
	})
	if nw == nil {
		c.violate("Z7", key, c.pos(f.Pos()), "no zip.NewWriter in the zip entry point")
		return
	}
	good, how := false, "not recognised"
	for _, l := range sources(nw.Call.Args[0], deriveOpts{through: func(n string) bool { return strings.Contains(n, "safeio.") || strings.HasPrefix(n, "bufio.") }}) {
		ex, ok := l.(*ssa.Extract)
		if !ok {
			continue
		}
		oc, ok := ex.Tuple.(*ssa.Call)
		if !ok {
			continue
		}
		name, args, isFs := fsMethodCall(oc)
		if !isFs {
			continue
		}
		switch name {
		case "CreateFile", "Create":
			good, how = true, name
		case "OpenFile":
			if len(args) >= 2 {
				if fl, isC := constInt(args[1]); isC {
					// O_TRUNC = 0x200, O_EXCL = 0x80 on the platforms analysed (checked against package os below)
					if fl&c07osFlag(c, "O_TRUNC") != 0 || fl&c07osFlag(c, "O_EXCL") != 0 {
						good, how = true, "OpenFile with O_TRUNC/O_EXCL"
					} else {
						how = "OpenFile without O_TRUNC"
					}
				}
			}
		}
	}
	c.check(good, "Z7", key, c.ipos(nw), "the archive is written into a handle that starts empty ("+how+")",
		"the archive is written into a handle that keeps what the destination held ("+how+"): zipping a smaller tree onto the path of an older, larger archive leaves the old central directory at the end of the file — unzipping, or the zip view, shows the old tree or fails")
}

func c07osFlag(c *Ctx, n string) int64 {
	osp := c.Prog.ImportedPackage("os")
	if osp == nil {
		return 0
	}
	k, _ := osp.Pkg.Scope().Lookup(n).(*types.Const)
	if k == nil {
		return 0
	}
	v, _ := constant.Int64Val(k.Val())
	return v
}

// c07ArchiveClosed (Z8): zip.Writer.Close flushes what is buffered and writes the central directory — for a small tree
// it is the only moment anything reaches the file. If its error (or that of closing the file) is dropped, Zip reports
// success for an archive that cannot be read back, and so does everything built on it (a shared-cache Store).
func (c *Ctx) c07ArchiveClosed() {
	f := c.fnOpt(fsPkgRel, "(*VFS).ZipWithContextAndLimitsAndExclusionPatterns")
	if f == nil {
		return
	}
	fns := append([]*ssa.Function{f}, f.AnonFuncs...)
	for _, want := range []struct{ callee, what, key string }{
		{"(*archive/zip.Writer).Close", "closing the zip writer", "writer"},
		{"Close", "closing the archive file", "file"},
	} {
		found, heeded := false, false
		for _, g := range fns {
			allInstrs(g, func(in ssa.Instruction) {
				cl, ok := in.(*ssa.Call)
				if !ok {
					return
				}
				n := calleeFull(&cl.Call)
				match := n == want.callee
				if want.key == "file" {
					// the handle the writer writes into: an invoke of Close on a File value
					match = cl.Call.IsInvoke() && cl.Call.Method.Name() == "Close" && strings.HasSuffix(cl.Call.Value.Type().String(), "filesystem.File")
					if match {
						// not the source files opened by the walker
						isArchive := c07IsCreatedHandle(cl.Call.Value, f, 0)
						match = isArchive
					}
				}
				if !match {
					return
				}
				found = true
				if c07ReachesErrorResult(cl, f, g) {
					heeded = true
				}
			})
		}
		c.check(found && heeded, "Z8", fname(f)+"/close-outcome:"+want.key, c.pos(f.Pos()), "the outcome of "+want.what+" is reported when nothing failed before",
			"the outcome of "+want.what+" is dropped: when it fails (no space left, I/O error — for a small tree nothing is written before) Zip reports success for an archive that cannot be read back")
	}
}

// c07ReachesErrorResult: the value of call cl (made in g, which is f or a literal of f) flows into f's error result:
// returned by f, or stored into f's named error result from a deferred literal.
func c07ReachesErrorResult(cl *ssa.Call, f, g *ssa.Function) bool {
	seen := map[ssa.Value]bool{}
	var walk func(v ssa.Value) bool
	walk = func(v ssa.Value) bool {
		if seen[v] || v.Referrers() == nil {
			return false
		}
		seen[v] = true
		for _, r := range *v.Referrers() {
			switch x := r.(type) {
			case *ssa.Return:
				if g == f {
					return true
				}
			case *ssa.Store:
				if x.Val != v {
					continue
				}
				// the named error result of f: an Alloc of f, or a free variable of the literal bound to it
				if a, ok := x.Addr.(*ssa.Alloc); ok && a.Parent() == f && isErrorType(a.Type().Underlying().(*types.Pointer).Elem()) {
					return true
				}
				if fv, ok := x.Addr.(*ssa.FreeVar); ok {
					if pt, isP := fv.Type().Underlying().(*types.Pointer); isP && isErrorType(pt.Elem()) {
						return true
					}
				}
			case *ssa.Phi:
				if walk(x) {
					return true
				}
			case *ssa.Call:
				// converters (ConvertFileSystemError, convertZipError, …): follow the result
				if g2 := staticCallee(&x.Call); g2 != nil && strings.Contains(strings.ToLower(g2.Name()), "convert") && walk(x) {
					return true
				}
			case *ssa.MakeInterface:
				if walk(x) {
					return true
				}
			}
		}
		return false
	}
	return walk(cl)
}

// c07IsCreatedHandle: v is (a load of a variable of f holding) the handle returned by CreateFile / Create / OpenFile.
func c07IsCreatedHandle(v ssa.Value, f *ssa.Function, depth int) bool {
	if depth > 4 {
		return false
	}
	isOpener := func(l ssa.Value) bool {
		if ex, isEx := l.(*ssa.Extract); isEx {
			if oc, isOC := ex.Tuple.(*ssa.Call); isOC {
				if nm, _, isFs := fsMethodCall(oc); isFs && (nm == "CreateFile" || nm == "Create" || nm == "OpenFile") {
					return true
				}
			}
		}
		return false
	}
	for _, l := range sources(v, deriveOpts{}) {
		if isOpener(l) {
			return true
		}
		// a variable of the enclosing function captured by reference: look at what is stored into it
		var cell ssa.Value
		if u, isU := l.(*ssa.UnOp); isU {
			cell = u.X
		}
		if fv, isFV := cell.(*ssa.FreeVar); isFV {
			cell = resolveFreeVar(fv)
		}
		if a, isA := cell.(*ssa.Alloc); isA {
			found := false
			allInstrs(f, func(in ssa.Instruction) {
				if st, ok := in.(*ssa.Store); ok && st.Addr == ssa.Value(a) && c07IsCreatedHandle(st.Val, f, depth+1) {
					found = true
				}
			})
			if found {
				return true
			}
		}
	}
	return false
}

// c07SniffingFailureIsNotAnExtractionFailure (V11): "the zip→unzip round trip reproduces the tree … for every legal content".
// In recursive mode every extracted file with an archive-like name is sniffed (IsZipWithContext reads its first bytes). A
// file that cannot be sniffed — an empty one: 'no bytes were read' — is simply not an archive. Only the end of the context
// met while sniffing is the extraction's business (F63). Decided: in (*VFS).unzip a return that hands back the error of
// IsZipWithContext lies on the true side of commonerrors.Any(thatError, kinds…) whose kinds are ErrCancelled / ErrTimeout only.
func (c *Ctx) c07SniffingFailureIsNotAnExtractionFailure() {
	c.rule("V11", "in the extraction loop the error of sniffing an extracted file (IsZipWithContext) ends the extraction only where it was classified as 'cancelled' / 'timeout': a file that cannot be sniffed (an empty file named x.zip) is not an archive, not a failure", 1)
	f := c.fnOpt(fsPkgRel, "(*VFS).unzip")
	if f == nil {
		return
	}
	c.FuncsSeen[fname(f)] = true
	n := 0
	allInstrs(f, func(in ssa.Instruction) {
		cl, ok := in.(*ssa.Call)
		if !ok {
			return
		}
		g := staticCallee(&cl.Call)
		if g == nil || !strings.HasPrefix(g.Name(), "IsZip") {
			return
		}
		es := errResultsOf(cl)
		if len(es) == 0 {
			return
		}
		e := es[0]
		n++
		bad := ""
		k := f.Signature.Results().Len() - 1
		allInstrs(f, func(r ssa.Instruction) {
			// the error leaves through a return, or (the function has deferred calls: results live in memory) through a store
			// into a result variable
			var out ssa.Value
			switch x := r.(type) {
			case *ssa.Return:
				if len(x.Results) > k {
					out = x.Results[k]
				}
			case *ssa.Store:
				if _, isAlloc := x.Addr.(*ssa.Alloc); isAlloc && isErrorType(x.Val.Type()) {
					out = x.Val
				}
			}
			if out == nil {
				return
			}
			carries := out == e
			for _, l := range sources(out, deriveOpts{through: func(string) bool { return true }}) {
				if l == e || l == ssa.Value(cl) {
					carries = true
				}
			}
			if !carries {
				return
			}
			ctxOnly := onBoolSide(r, true, func(v ssa.Value) bool {
				t, ok := v.(*ssa.Call)
				if !ok || !strings.HasSuffix(calleeFull(&t.Call), "commonerrors.Any") || len(t.Call.Args) < 2 || !sameValue(t.Call.Args[0], e) {
					return false
				}
				els := variadicElems(t.Call.Args[1])
				if len(els) == 0 {
					return false
				}
				for _, a := range els {
					if !isGlobalLoad(a, "ErrCancelled") && !isGlobalLoad(a, "ErrTimeout") {
						return false
					}
				}
				return true
			})
			if !ctxOnly {
				bad = c.ipos(r)
			}
		})
		c.check(bad == "", "V11", fname(f)+"/sniffing:"+g.Name(), c.ipos(cl), "the sniffing error is returned only where it says 'cancelled' / 'timeout'",
			"the return at "+bad+" hands back whatever error the sniffing of the extracted file produced: an empty file with an archive-like name ('no bytes were read') aborts the extraction of a perfectly good archive — the entries after it are never extracted and the round trip of a tree with such a file fails")
	})
	if n == 0 {
		c.info("V11", fname(f)+"/no-sniffing", "-", "the extraction loop does not sniff extracted files")
	}
}

// c07NoAnswerFromAClosedFilesystem (V12): "once closed serve nothing any more: every call that needs the archive fails". V1
// guards the accesses to the backend; a method that never touches the backend itself can still answer without an error on
// the strength of queries that cannot fail (Exists() is simply false on a closed filesystem: "x.zip does not exist, so by
// its name it is an archive"). Decided for every exported method of *VFS with an error result and a path parameter: a
// return that can carry a nil error is reached only after the closed guard answered nil in the method itself, or after a
// call of another method of the filesystem whose error was found nil.
func (c *Ctx) c07NoAnswerFromAClosedFilesystem() {
	c.rule("V12", "an exported method of the filesystem that takes a path returns without an error only after the closed guard (consulted by itself) or a delegated filesystem call answered nil: nothing is concluded from queries that cannot fail", 60)
	for _, f := range c.srcFuncs(fsPkgRel) {
		if f.Parent() != nil || f.Blocks == nil || f.Signature.Recv() == nil || !isVFSPtr(f.Signature.Recv().Type()) || !ast.IsExported(f.Name()) {
			continue
		}
		res := f.Signature.Results()
		if res.Len() == 0 || !isErrorType(res.At(res.Len()-1).Type()) {
			continue
		}
		hasPath := false
		for _, p := range f.Params[1:] {
			if p.Type().String() == "string" {
				hasPath = true
			}
		}
		if !hasPath || f.Name() == "Close" {
			continue
		}
		k := res.Len() - 1
		// error values of calls that vouch for the filesystem being open
		var vouchers []ssa.Value
		allInstrs(f, func(in ssa.Instruction) {
			cl, ok := in.(*ssa.Call)
			if !ok {
				return
			}
			if calleeFull(&cl.Call) == vfsGuard {
				vouchers = append(vouchers, cl)
				return
			}
			g := staticCallee(&cl.Call)
			viaFS := false
			if g != nil && g.Signature.Recv() != nil && isVFSPtr(g.Signature.Recv().Type()) {
				viaFS = true
			}
			if g != nil && g.Signature.Recv() == nil && inPkg(fsPkgRel)(g) {
				// a package-level helper that is handed this filesystem
				for _, a := range cl.Call.Args {
					if resolveValue(a) == ssa.Value(f.Params[0]) {
						viaFS = true
					}
					if mi, ok := a.(*ssa.MakeInterface); ok && resolveValue(mi.X) == ssa.Value(f.Params[0]) {
						viaFS = true
					}
				}
			}
			if viaFS {
				vouchers = append(vouchers, errResultsOf(cl)...)
			}
		})
		bad := ""
		allInstrs(f, func(in ssa.Instruction) {
			r, ok := in.(*ssa.Return)
			if !ok || len(r.Results) <= k || isErrorExit(f, r) {
				return
			}
			// the value returned is itself the (possibly converted) error of a delegated call: it is nil only if that call succeeded
			for _, l := range sources(r.Results[k], deriveOpts{through: func(n string) bool { return strings.Contains(strings.ToLower(n), "convert") }}) {
				for _, v := range vouchers {
					if l == v || sameValue(l, v) {
						return
					}
					if ex, isEx := v.(*ssa.Extract); isEx && l == ex.Tuple {
						return
					}
				}
			}
			for _, v := range vouchers {
				if onNilSide(v, r) {
					return
				}
			}
			bad = c.ipos(r)
		})
		c.FuncsSeen[fname(f)] = true
		c.check(bad == "", "V12", fname(f)+"/answers-only-when-open", c.pos(f.Pos()), "every return without an error follows the closed guard or a delegated filesystem call that answered nil",
			"the return at "+bad+" can hand back an answer without an error although nothing established that the filesystem is still open: on a view over an archive that was closed the queries that cannot fail (Exists, IsFile) simply answer false, and the method concludes from that — a closed filesystem says that `x.zip` is an archive")
	}
}

// c07TimesReportTheErrorOfStat (V13): "once closed … every call that needs the archive fails (the direct accessors with the
// 'failed condition' kind)" and, for C06, "the error kinds are those of the reference model". StatTimes looks at the file
// with Stat: where that failed, the failure is what the caller gets — not whatever DetermineFileTimes makes of missing
// information ('undefined'). Decided: every return reachable from the Stat call without crossing the nil side of a test
// of its error returns that error (converted at most).
func (c *Ctx) c07TimesReportTheErrorOfStat() {
	c.rule("V13", "StatTimes returns the error of its Stat wherever that error is not nil: a missing file is 'not found', a closed view 'failed condition' — never 'undefined' for want of information", 1)
	f := c.fnOpt(fsPkgRel, "(*VFS).StatTimes")
	if f == nil {
		return
	}
	c.FuncsSeen[fname(f)] = true
	var stat *ssa.Call
	allInstrs(f, func(in ssa.Instruction) {
		if cl, ok := in.(*ssa.Call); ok {
			if nm, _, isFs := fsMethodCall(cl); isFs && (nm == "Stat" || nm == "Lstat") {
				stat = cl
			}
		}
	})
	if stat == nil {
		c.violate("V13", fname(f)+"/stat-error-returned", c.pos(f.Pos()), "StatTimes no longer looks at the file with Stat")
		return
	}
	es := errResultsOf(stat)
	if len(es) == 0 {
		return
	}
	e := es[0]
	k := f.Signature.Results().Len() - 1
	prune := func(b *ssa.BasicBlock, kk int) bool {
		ifi, ok := b.Instrs[len(b.Instrs)-1].(*ssa.If)
		if !ok {
			return false
		}
		if x, nilSucc, isNil := nilTest(ifi); isNil && sameValue(x, e) {
			return kk == nilSucc
		}
		return false
	}
	bad := pathPruned(f, stat, func(ssa.Instruction) bool { return false }, func(in ssa.Instruction) bool {
		r, ok := in.(*ssa.Return)
		if !ok || len(r.Results) <= k {
			return false
		}
		for _, l := range sources(r.Results[k], deriveOpts{through: func(n string) bool { return strings.Contains(strings.ToLower(n), "convert") }}) {
			if l == e || sameValue(l, e) {
				return false
			}
		}
		return true
	}, prune)
	c.check(bad == nil, "V13", fname(f)+"/stat-error-returned", c.ipos(stat), "where Stat failed, its error is what StatTimes returns",
		"the return at "+c.iposOr(bad)+" can be reached with the error of Stat not nil and hands back something else: StatTimes of a missing file answers 'undefined: no file information defined' instead of 'not found', and on a view over an archive that was closed the 'failed condition' kind is lost")
}

// c07EmptyDirectoriesAndDirectorySizes (V14, V15).
// V14: "the read-only zip and tar filesystems … expose exactly the same paths, kinds, sizes": an empty directory of the
// archive is empty. The zip view returns no names and no error for it: isDirEmpty answers 'empty' where the listing gave
// no name — a test of the number of names returned guards a return of true.
// V15: "zipping it and unzipping the result reproduces the tree … with and without limits": the maximum file size is a
// limit on files. In the zip walker the comparison of an entry's size with that limit lies where the entry was found not
// to be a directory (the size a file system reports for a directory says nothing about the archive).
func (c *Ctx) c07EmptyDirectoriesAndDirectorySizes() {
	c.rule("V14", "isDirEmpty answers 'empty' where the listing returned no name (and no error): the number of names returned is tested and guards a return of true", 1)
	c.rule("V15", "in the zip walker the size of an entry is compared with the maximum file size only where the entry is not a directory", 1)
	if f := c.fnOpt(fsPkgRel, "(*VFS).isDirEmpty"); f != nil {
		c.FuncsSeen[fname(f)] = true
		var names ssa.Value
		allInstrs(f, func(in ssa.Instruction) {
			if cl, ok := in.(*ssa.Call); ok && cl.Call.IsInvoke() && (cl.Call.Method.Name() == "Readdirnames" || cl.Call.Method.Name() == "Readdir") {
				for _, r := range *cl.Referrers() {
					if ex, ok := r.(*ssa.Extract); ok && ex.Index == 0 {
						names = ex
					}
				}
			}
		})
		good := false
		if names != nil {
			for _, b := range f.Blocks {
				ifi, ok := b.Instrs[len(b.Instrs)-1].(*ssa.If)
				if !ok {
					continue
				}
				onLen := false
				for _, l := range sources(ifi.Cond, deriveOpts{through: func(string) bool { return true }}) {
					if l == names {
						onLen = true
					}
				}
				var walk func(v ssa.Value, d int)
				walk = func(v ssa.Value, d int) {
					if d > 6 {
						return
					}
					switch x := v.(type) {
					case *ssa.BinOp:
						walk(x.X, d+1)
						walk(x.Y, d+1)
					case *ssa.UnOp:
						walk(x.X, d+1)
					case *ssa.Phi:
						for _, e := range x.Edges {
							walk(e, d+1)
						}
					case *ssa.Call:
						if bi, ok := x.Call.Value.(*ssa.Builtin); ok && bi.Name() == "len" && len(x.Call.Args) == 1 && x.Call.Args[0] == names {
							onLen = true
						}
					}
				}
				walk(ifi.Cond, 0)
				if !onLen {
					continue
				}
				// a return of (true, …) reached only over one edge of this test
				for k := 0; k < 2; k++ {
					allInstrs(f, func(in ssa.Instruction) {
						r, ok := in.(*ssa.Return)
						if !ok || len(r.Results) == 0 || !edgeDominates(b, k, r.Block()) {
							return
						}
						for _, l := range sources(r.Results[0], deriveOpts{}) {
							if bv, isB := constBool(l); isB && bv {
								good = true
							}
						}
					})
				}
			}
		}
		c.check(good, "V14", fname(f)+"/no-name-means-empty", c.pos(f.Pos()), "a test of the number of names returned guards a return of true",
			"isDirEmpty only takes the end-of-directory error for 'empty': the read-only view over a zip archive returns no names and no error for an empty directory, so IsEmpty answers false for every empty directory of an archive")
	}
	if f := c.fnOpt(fsPkgRel, "(*VFS).ZipWithContextAndLimitsAndExclusionPatterns"); f != nil {
		n := 0
		bad := ""
		withAnon(f, func(g *ssa.Function) {
			if g == f {
				return
			}
			allInstrs(g, func(in ssa.Instruction) {
				b, ok := in.(*ssa.BinOp)
				if !ok {
					return
				}
				isMax := func(v ssa.Value) bool { return isLimitsGetter(v, "GetMaxFileSize") }
				isSize := func(v ssa.Value) bool {
					cl, ok := stripConv(v).(*ssa.Call)
					return ok && cl.Call.IsInvoke() && cl.Call.Method.Name() == "Size" && strings.HasSuffix(cl.Call.Value.Type().String(), ".FileInfo")
				}
				if !((isMax(b.X) && isSize(b.Y)) || (isMax(b.Y) && isSize(b.X))) {
					return
				}
				n++
				notDir := onBoolSide(b, false, func(v ssa.Value) bool {
					cl, ok := v.(*ssa.Call)
					return ok && cl.Call.IsInvoke() && cl.Call.Method.Name() == "IsDir"
				})
				if !notDir {
					bad = c.ipos(b)
				}
			})
		})
		if n == 0 {
			c.info("V15", fname(f)+"/no-per-entry-size-test", "-", "the zip walker does not compare entry sizes with the maximum file size")
			c.ok("V15", fname(f)+"/directories-not-measured", c.pos(f.Pos()), "no entry size is compared with the limit in the walker")
		} else {
			c.check(bad == "", "V15", fname(f)+"/directories-not-measured", c.pos(f.Pos()), "the size comparison lies on the 'not a directory' side",
				"the size of every entry, directories included, is compared with the maximum file size ("+bad+"): the 4096 bytes a file system reports for a directory make a tree whose only file is five bytes long 'too large' under a limit of 1024 bytes per file")
		}
	}
}

// c07ArchivingInventsNoPattern (V16): "zipping it and unzipping the result reproduces the same relative paths …". The plain
// variants of the archiving (Zip, ZipWithContext, ZipWithContextAndLimits) leave nothing out: they reach the implementation
// with no exclusion pattern, and the variant that takes patterns hands over the caller's. A pattern of the library's own —
// the base name of the archive, say, "so that the archive is left out of itself" — matches entry names at every depth:
// every file or directory of that name disappears from the archive, directories with all they hold, and nothing reports it.
func (c *Ctx) c07ArchivingInventsNoPattern() {
	c.rule("V16", "the archiving implementation is handed, for its exclusion patterns, nothing or the patterns of the caller: no variant of Zip adds a pattern of its own", 1)
	n := 0
	for _, f := range c.srcFuncs(fsPkgRel) {
		if f.Blocks == nil {
			continue
		}
		allInstrs(f, func(in ssa.Instruction) {
			cl, ok := in.(*ssa.Call)
			if !ok {
				return
			}
			var sig *types.Signature
			name := ""
			if cl.Call.IsInvoke() {
				name = cl.Call.Method.Name()
				sig, _ = cl.Call.Method.Type().(*types.Signature)
			} else if g := staticCallee(&cl.Call); g != nil {
				name = g.Name()
				sig = g.Signature
			}
			if sig == nil || !strings.HasPrefix(name, "Zip") || !sig.Variadic() {
				return
			}
			last := sig.Params().At(sig.Params().Len() - 1)
			if last.Type().String() != "[]string" || !strings.Contains(strings.ToLower(last.Name()), "exclusion") {
				return
			}
			arg := cl.Call.Args[len(cl.Call.Args)-1]
			n++
			own := false
			for _, p := range outermost(f).Params {
				if p.Type().String() == "[]string" && resolveValue(arg) == ssa.Value(p) {
					own = true
				}
			}
			els := variadicElems(arg)
			empty := isNilConst(arg) || (len(els) == 0 && !own)
			if _, isConstNil := arg.(*ssa.Const); isConstNil {
				empty = true
			}
			c.FuncsSeen[fname(outermost(f))] = true
			c.check(own || empty, "V16", fname(outermost(f))+"/patterns-to:"+name, c.ipos(cl), "no pattern, or the caller's own, is handed to the archiving implementation",
				fname(outermost(f))+" hands the archiving implementation a pattern of its own making: patterns match entry names at every depth, so every file or directory of the tree that carries the matched name — the base name of the archive, say — is left out of the archive, directories with all they hold, without an error: zip then unzip no longer reproduces the tree, and the other variants disagree with this one")
		})
	}
	if n == 0 {
		c.violate("V16", fsPkgRel+"/no-archiving-call", "-", "no variant of Zip reaches an archiving implementation that takes patterns any more")
	}
}

// c07SiblingComparisonsAgree (V17): "zipping it and unzipping the result reproduces the tree … with and without limits": a tree
// that fits the limits exactly is extracted. Where one function compares a quantity with the same limit in more than one
// place (the count of entries is checked in the directory branch and again at the bottom of the loop), the places agree on
// whether the limit itself is still allowed: one `>=` among `>` refuses, in that place only, an archive that reaches the
// limit without exceeding it — a tree whose last entry is an empty directory, extracted with a count limit equal to its
// number of entries.
func (c *Ctx) c07SiblingComparisonsAgree() {
	c.rule("V17", "within one function of package filesystem every comparison of a quantity with the same limit (GetMaxFileCount, GetMaxTotalSize, GetMaxFileSize, GetMaxDepth) uses the same operator: the places that enforce one limit agree on whether reaching it is allowed", 1)
	for _, f := range c.srcFuncs(fsPkgRel) {
		if f.Blocks == nil {
			continue
		}
		ops := map[string]map[string][]string{}
		allInstrs(f, func(in ssa.Instruction) {
			b, ok := in.(*ssa.BinOp)
			if !ok {
				return
			}
			switch b.Op {
			case token.GTR, token.GEQ, token.LSS, token.LEQ:
			default:
				return
			}
			for _, g := range []string{"GetMaxFileCount", "GetMaxTotalSize", "GetMaxFileSize", "GetMaxDepth"} {
				var other ssa.Value
				op := b.Op
				switch {
				case isLimitsGetter(b.Y, g):
					other = b.X
				case isLimitsGetter(b.X, g):
					other = b.Y
					// normalise to "quantity OP limit"
					op = map[token.Token]token.Token{token.GTR: token.LSS, token.GEQ: token.LEQ, token.LSS: token.GTR, token.LEQ: token.GEQ}[b.Op]
				default:
					continue
				}
				if _, isConst := other.(*ssa.Const); isConst {
					continue // the limit tested against a constant ("is there a limit at all?")
				}
				if ops[g] == nil {
					ops[g] = map[string][]string{}
				}
				ops[g][op.String()] = append(ops[g][op.String()], c.ipos(b))
			}
		})
		for g, byOp := range ops {
			total := 0
			for _, sites := range byOp {
				total += len(sites)
			}
			if total < 2 {
				continue
			}
			detail := ""
			for op, sites := range byOp {
				detail += " `" + op + "` at " + strings.Join(sites, ", ") + ";"
			}
			c.FuncsSeen[fname(outermost(f))] = true
			c.check(len(byOp) == 1, "V17", fname(f)+"/"+g+"/same-operator", c.pos(f.Pos()), "the comparisons with this limit use one operator",
				"the comparisons with "+g+"() in this function disagree:"+detail+" in one of these places reaching the limit is refused, in the other it is allowed — an archive whose count of entries (or size) equals the limit is extracted or refused depending on which entry comes last: a tree ending with an empty directory fails the round trip under a count limit equal to its number of entries")
		}
	}
}

// c07DepthIsTheDepthOfThePath (V19): "zipping and unzipping reproduces the same relative paths and kinds … (empty
// directories) … with and without limits". The depth of an entry that is compared with the maximum depth is the depth of
// the path it is extracted to, as FileTreeDepth measures it (and as the recursive listing does): counted on the entry's
// name instead — the number of slashes — a directory entry, whose name ends with one, is one level deeper than it is, and
// a tree whose deepest entry is an empty directory at the maximum depth is refused although it lies within the limit.
func (c *Ctx) c07DepthIsTheDepthOfThePath() {
	c.rule("V19", "the depth unzip compares with GetMaxDepth() derives from FileTreeDepth of the entry's path (plus the depth of the enclosing archives), not from a count made on the entry's name", 1)
	f := c.fnOpt(fsPkgRel, "(*VFS).unzip")
	if f == nil {
		return
	}
	c.FuncsSeen[fname(f)] = true
	n := 0
	bad := ""
	allInstrs(f, func(in ssa.Instruction) {
		bo, ok := in.(*ssa.BinOp)
		if !ok {
			return
		}
		switch bo.Op {
		case token.GTR, token.GEQ, token.LSS, token.LEQ:
		default:
			return
		}
		for _, pair := range [][2]ssa.Value{{bo.X, bo.Y}, {bo.Y, bo.X}} {
			if !isLimitsGetter(pair[1], "GetMaxDepth") {
				continue
			}
			if k, isK := pair[0].(*ssa.Const); isK && k.Value != nil {
				continue // the test "is the depth limited at all"
			}
			n++
			fromTree := false
			for _, l := range sources(pair[0], deriveOpts{}) {
				if ex, ok := l.(*ssa.Extract); ok {
					if k, ok := ex.Tuple.(*ssa.Call); ok && strings.HasSuffix(calleeFull(&k.Call), "filesystem.FileTreeDepth") {
						fromTree = true
					}
				}
			}
			if !fromTree {
				bad = c.ipos(bo)
			}
		}
	})
	c.check(n > 0 && bad == "", "V19", fname(f)+"/depth-of-the-path", c.pos(f.Pos()), "the depth compared with the maximum is FileTreeDepth of the extracted path",
		"the depth compared with the maximum at "+bad+" does not come from FileTreeDepth of the entry's path: counted on the name (its slashes), a directory entry — `a/b/dir/` — is one level deeper than the directory it names, so a tree whose deepest entry is an empty directory exactly at the maximum depth is refused as 'too large' and zipping it and unzipping the result under limits fails")
}
