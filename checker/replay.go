package main

import (
	"encoding/json"
	"os"
)

func keyFromReplay(path string) (string, error) {
	b, err := os.ReadFile(path)
	if err != nil {
		return "", err
	}
	var r struct {
		Key string `json:"key"`
	}
	if err := json.Unmarshal(b, &r); err != nil {
		return "", err
	}
	return r.Key, nil
}
