#!/bin/bash
# tools/try_seed.sh <property-id> <patch.diff> [more ids…]
# applies a seeded change to /repo, runs the quick check(s), and always restores /repo.
id=$1; patch=$2; shift 2
cd /repo || exit 2
if ! git diff --quiet; then echo "/repo has uncommitted changes; refusing"; exit 2; fi
git apply "$patch" || { echo "patch does not apply"; exit 2; }
cd /verif
export GUCHECK_EVIDENCE_DIR=$(mktemp -d /tmp/seeded-evidence.XXXXXX)
for p in $id "$@"; do
  ./check $p > /tmp/try_seed_$p.out 2>&1; code=$?
  echo "== $p exit=$code"; grep -v "^VIOLATION" /tmp/try_seed_$p.out | cut -c1-400 | head -12
done
git -C /repo checkout -- . ; git -C /repo status --short | grep -v date.txt
rm -rf "$GUCHECK_EVIDENCE_DIR"
