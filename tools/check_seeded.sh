#!/bin/bash
# tools/check_seeded.sh [dir…] — regression over the kept seeded changes: each patch is applied to /repo,
# the property's quick check must report a violation (exit 1), and /repo is restored straight afterwards.
cd /verif
export GUCHECK_EVIDENCE_DIR=$(mktemp -d /tmp/seeded-evidence.XXXXXX)
dirs="$@"; [ -z "$dirs" ] && dirs=$(ls -d seeded/*/)
fail=0
for d in $dirs; do
  d=${d%/}; id=$(python3 -c "import json;print(json.load(open('$d/meta.json'))['property'])")
  if python3 -c "import json,sys;sys.exit(0 if 'obsolete_since' in json.load(open('$d/meta.json')) else 1)"; then echo "skipped $d (obsoleted by a repair of the repository, see its meta.json)"; continue; fi
  if ! git -C /repo diff --quiet; then echo "/repo dirty"; exit 2; fi
  git -C /repo apply /verif/$d/patch.diff || { echo "$d: patch does not apply"; fail=1; continue; }
  ./check $id > /tmp/check_seeded.out 2>&1; code=$?
  git -C /repo checkout -- .
  if [ $code -eq 1 ]; then echo "caught  $d ($(grep -c '^VIOLATION' /tmp/check_seeded.out) violation(s): $(grep -o '\[C[0-9][0-9]/[^]]*\]' /tmp/check_seeded.out | head -2 | tr '\n' ' '))"; else echo "MISSED  $d (exit $code)"; fail=1; fi
done
rm -rf "$GUCHECK_EVIDENCE_DIR"
exit $fail
