#!/bin/bash
# run the repository's own tests with the repository's toolchain (go1.24.1), offline
# usage: tools/repotest.sh ./hashing/... [extra go test flags]
export PATH=/root/go/pkg/mod/golang.org/toolchain@v0.0.1-go1.24.1.linux-amd64/bin:$PATH
export GOTOOLCHAIN=local GOFLAGS=-mod=mod GOPROXY=off GOSUMDB=off
unset GOWORK
cd ${VERIF_REPO:-/repo/utils} && go test -vet=off -count=1 -timeout 25m "$@"
