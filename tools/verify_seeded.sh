#!/bin/bash
# tools/verify_seeded.sh <ID> <pkgdir relative to utils> <demo test regex> [extra go test flags]
# Confirms, in a fresh scratch worktree, that the agent's change compiles, keeps the package's own tests green,
# and that the demonstration passes without the change and fails with it. Removes the worktree afterwards.
id=$1; pkg=$2; rx=$3; shift 3; extra="$@"
src=${SEED_SRC:-/tmp/wt}/$id; wt=/tmp/vs/$id
export PATH=/root/go/pkg/mod/golang.org/toolchain@v0.0.1-go1.24.1.linux-amd64/bin:$PATH GOTOOLCHAIN=local GOFLAGS=-mod=mod GOPROXY=off GOSUMDB=off
rm -rf $wt; mkdir -p /tmp/vs; git -C /repo worktree add --detach $wt HEAD -q || exit 2
for f in $(cd $src && git status --short | grep '^??' | awk '{print $2}' | grep '_test.go$'); do mkdir -p $wt/$(dirname $f); cp $src/$f $wt/$f; done
cd $wt/utils
echo "--- demo WITHOUT the change (expect PASS)"; go test -vet=off -count=1 $extra -run "$rx" ./$pkg/ 2>&1 | tail -3
git -C $wt apply $src/patch.diff || { echo "PATCH DOES NOT APPLY"; }
echo "--- build"; go build ./... 2>&1 | tail -3
echo "--- existing tests of $pkg WITH the change (expect ok apart from known failures)"; go test -vet=off -count=1 -skip "$rx" ./$pkg/... 2>&1 | grep -E "^(--- FAIL|FAIL|ok)" | head
echo "--- demo WITH the change (expect FAIL)"; go test -vet=off -count=1 $extra -run "$rx" ./$pkg/ 2>&1 | grep -E "^(--- FAIL|FAIL|ok|PASS)|race detected" | head -5
cd /; git -C /repo worktree remove --force $wt
