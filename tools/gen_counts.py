#!/usr/bin/env python3
"""tools/gen_counts.py: prints the table of DESIGN §10.3 (rules / obligations / seeds per property) from
checker/cNN.go (c.rule declarations), evidence/<id>.json (run ./check first) and seeds/<id>/seeds.json."""
import json, re, os, glob
root = os.path.dirname(os.path.dirname(os.path.abspath(__file__)))
def rng(ids):
    # group rule ids by letter, give ranges
    by = {}
    for r in ids:
        m = re.match(r'([A-Z]+)(\d+)$', r)
        by.setdefault(m.group(1), []).append(int(m.group(2)))
    out = []
    for k, v in by.items():
        v = sorted(set(v))
        out.append('%s%d–%s%d' % (k, v[0], k, v[-1]) + ('' if v == list(range(v[0], v[-1] + 1)) else ' (not all numbers used)'))
    return ', '.join(out)
print('| id | rules | obligations | seeds (mutant / refactor) |')
print('|----|-------|-------------|---------------------------|')
for i in range(1, 21):
    pid = 'C%02d' % i
    src = open('%s/checker/c%02d.go' % (root, i)).read()
    rules = re.findall(r'c\.rule\("([A-Z]+\d+)"', src)
    if pid == 'C04':
        rules += ['N4']
    ev = json.load(open('%s/evidence/%s.json' % (root, pid)))
    cov = ev['coverage']
    n = cov.get('evaluations', '?')
    known = n - cov.get('discharged', n) if isinstance(n, int) else 0
    ob = str(n) + (' (%d known)' % known if known else '')
    seeds = json.load(open('%s/seeds/%s/seeds.json' % (root, pid)))
    mu = sum(1 for s in seeds if s['kind'] == 'mutant'); rf = sum(1 for s in seeds if s['kind'] == 'refactor')
    print('| %s | %s | %s | %d / %d |' % (pid, rng(rules), ob, mu, rf))
