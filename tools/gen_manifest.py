#!/usr/bin/env python3
"""Regenerates /verif/MANIFEST.json from tools/manifest_table.json and the set of
properties the checker binary actually registers (bin/gucheck list)."""
import json, subprocess, os, sys
root = os.path.dirname(os.path.dirname(os.path.abspath(__file__)))
table = json.load(open(os.path.join(root, 'tools', 'manifest_table.json')))
built = subprocess.run([os.path.join(root, 'bin', 'gucheck'), 'list'], capture_output=True, text=True).stdout.split()
props = [json.loads(l)['id'] for l in open(os.path.join(root, 'properties.jsonl'))]
GO124 = '/root/go/pkg/mod/golang.org/toolchain@v0.0.1-go1.24.1.linux-amd64/bin'
m = {
 'version': 1,
 'setup_cmd': '. ./env.sh && mkdir -p bin && cd checker && go build -o ../bin/gucheck .',
 'hooks': {
  'guard': 'verif',
  'enable': 'none needed: the checks are static and read /repo/utils as it is; no hook or instrumentation was added to the repository',
  'baseline_off_cmd': f'cd /repo/utils && PATH={GO124}:$PATH GOTOOLCHAIN=local GOFLAGS=-mod=mod GOPROXY=off GOSUMDB=off go test -json -vet=off -count=1 -timeout 25m ./...',
  'source_commits': [],
  'add_only': True,
 },
 'engines': [{
  'name': 'gucheck', 'path': 'checker/',
  'serves_properties': [p for p in props if p in built and p in table['claims']],
  'kind_free_text': 'repository-specific static analyser (Go, golang.org/x/tools v0.50.0: go/packages + go/ssa + go/types + go/constant). One sub-command per property; loads the current working tree of /repo/utils on every run, enumerates rule instances, writes evidence, reports file:line + rule + construct.',
 }],
 'checks': [],
 'not_applicable': [],
 'notes': table.get('notes', ''),
}
for p in props:
    if p in built and p in table['claims']:
        t = table['claims'][p]
        m['checks'].append({
         'property_id': p,
         'quick_cmd': f'./check {p} --tier quick',
         'thorough_cmd': f'./check {p} --tier thorough',
         'evidence_file': f'/verif/evidence/{p}.json',
         'replay_cmd_template': f'./check {p} --replay {{path}}',
         'engine': 'gucheck',
         'level_claimed': {'category': t['level'], 'text': t['text'], 'design_ref': t.get('design_ref', f'DESIGN.md §3 {p}')},
         'level_note': t['note'],
         'technique': t['technique'],
        })
    else:
        reason = table['not_applicable'].get(p) or ('static analysis: check for this property not built yet in this tree (see DESIGN.md §3 %s for the planned rules)' % p)
        m['not_applicable'].append({'property_id': p, 'reason': reason})
json.dump(m, open(os.path.join(root, 'MANIFEST.json'), 'w'), indent=1)
print('claims:', [c['property_id'] for c in m['checks']])
print('not_applicable:', [c['property_id'] for c in m['not_applicable']])
