#!/usr/bin/env python3
"""tools/keep_seed.py <ID> <name> <json-meta-string>: stores /tmp/wt/<ID>/{patch.diff, demo tests} under /verif/seeded/<ID>[-name]/ with meta.json"""
import sys, os, json, shutil, subprocess
pid, name, meta = sys.argv[1], sys.argv[2], json.loads(sys.argv[3])
src = os.environ.get('SEED_SRC', '/tmp/wt') + '/' + meta.pop('src', pid)
dst = '/verif/seeded/%s' % (pid if name in ('', '-') else pid + '-' + name)
os.makedirs(dst, exist_ok=True)
shutil.copy(src + '/patch.diff', dst + '/patch.diff')
out = subprocess.run(['git', 'status', '--short'], cwd=src, capture_output=True, text=True).stdout
demos = []
for l in out.splitlines():
    if l.startswith('??'):
        f = l[3:].strip()
        if f.endswith('_test.go') or f.endswith('.go') and 'demo' in f:
            os.makedirs(dst + '/demo', exist_ok=True)
            shutil.copy(src + '/' + f, dst + '/demo/' + os.path.basename(f))
            demos.append({'file': 'demo/' + os.path.basename(f), 'place_in': os.path.dirname(f)})
meta['property'] = pid
meta['demonstration'] = demos
json.dump(meta, open(dst + '/meta.json', 'w'), indent=1)
print('kept', dst, [d['file'] for d in demos])
