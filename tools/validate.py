#!/opt/veriftools/pyvenv/bin/python
import json,jsonschema,glob,sys
jsonschema.validate(json.load(open('/verif/MANIFEST.json')),json.load(open('/root/.vp/MANIFEST.schema.json')))
es=json.load(open('/root/.vp/EVIDENCE.schema.json'))
for f in sorted(glob.glob('/verif/evidence/*.json')):
    jsonschema.validate(json.load(open(f)),es)
print('manifest + %d evidence files valid'%len(glob.glob('/verif/evidence/*.json')))
