package filesystem

import (
	"archive/zip"
	"bytes"
	"context"
	"path/filepath"
	"sort"
	"testing"

	"github.com/stretchr/testify/assert"
	"github.com/stretchr/testify/require"

	"github.com/ARM-software/golang-utils/utils/commonerrors"
)

// Names with dots in a row are legal names and must survive a zip / unzip round trip.
func TestK13RoundTripOfNamesWithDoubledDots(t *testing.T) {
	for _, fsType := range []FilesystemType{StandardFS, InMemoryFS} {
		t.Run(fsType.String(), func(t *testing.T) {
			fs := NewFs(fsType)
			root, err := fs.TempDirInTempDir("k13-")
			require.NoError(t, err)
			defer func() { _ = fs.Rm(root) }()
			src := filepath.Join(root, "src")
			names := []string{"a..b.txt", "..leading", "trailing..", filepath.Join("dir..name", "x...y")}
			for _, n := range names {
				require.NoError(t, fs.MkDir(filepath.Dir(filepath.Join(src, n))))
				require.NoError(t, fs.WriteFile(filepath.Join(src, n), []byte(n), 0o644))
			}
			archive := filepath.Join(root, "a.zip")
			require.NoError(t, fs.Zip(src, archive))
			dest := filepath.Join(root, "dest")
			_, err = fs.Unzip(archive, dest)
			require.NoError(t, err, "an archive made of legal names must be extracted")
			for _, n := range names {
				got, rerr := fs.ReadFile(filepath.Join(dest, n))
				assert.NoError(t, rerr)
				assert.Equal(t, n, string(got))
			}
		})
	}
}

func k13Snapshot(t *testing.T, fs FS, root string) []string {
	var all []string
	require.NoError(t, fs.ListDirTree(root, &all))
	sort.Strings(all)
	return all
}

// Parent references are still refused, wherever they are, and so is a nested archive whose stem is one.
func TestK13ParentReferencesAreStillRefused(t *testing.T) {
	nested := func() []byte {
		var b bytes.Buffer
		w := zip.NewWriter(&b)
		fw, _ := w.Create("pwn.txt")
		_, _ = fw.Write([]byte("pwn"))
		_ = w.Close()
		return b.Bytes()
	}()
	for _, fsType := range []FilesystemType{StandardFS, InMemoryFS} {
		for _, name := range []string{"../x", "a/../../x", "a/b/../../../x", "sub/...zip", "...zip"} {
			t.Run(fsType.String()+"/"+name, func(t *testing.T) {
				fs := NewFs(fsType)
				root, err := fs.TempDirInTempDir("k13-")
				require.NoError(t, err)
				defer func() { _ = fs.Rm(root) }()
				var b bytes.Buffer
				w := zip.NewWriter(&b)
				fw, err := w.Create(name)
				require.NoError(t, err)
				if filepath.Ext(name) == ".zip" {
					_, _ = fw.Write(nested)
				} else {
					_, _ = fw.Write([]byte("x"))
				}
				require.NoError(t, w.Close())
				archive := filepath.Join(root, "a.zip")
				require.NoError(t, fs.WriteFile(archive, b.Bytes(), 0o644))
				dest := filepath.Join(root, "parent", "dest")
				require.NoError(t, fs.MkDir(dest))
				before := k13Snapshot(t, fs, root)
				_, err = fs.UnzipWithContextAndLimits(context.Background(), archive, dest, RecursiveZipLimits(5))
				assert.True(t, commonerrors.Any(err, commonerrors.ErrMalicious), "expected 'suspected malicious intent', got %v", err)
				after := k13Snapshot(t, fs, root)
				var outside []string
				seen := map[string]bool{}
				for _, p := range before {
					seen[p] = true
				}
				for _, p := range after {
					if !seen[p] && !(len(p) >= len(dest) && p[:len(dest)] == dest) {
						outside = append(outside, p)
					}
				}
				assert.Empty(t, outside, "entries created outside the destination")
			})
		}
	}
}
