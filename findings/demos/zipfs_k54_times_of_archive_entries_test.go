package filesystem

import (
	"context"
	"path/filepath"
	"testing"
	"time"

	"github.com/stretchr/testify/assert"
	"github.com/stretchr/testify/require"
)

// The read-only views over an archive refuse mutating calls and answer the others: asking for the times of an entry, or running a garbage
// collection over the view, does not take the process down.
func TestK54TimesOfArchiveEntries(t *testing.T) {
	fs := NewStandardFileSystem()
	tmp := t.TempDir()
	require.NoError(t, fs.MkDir(filepath.Join(tmp, "tree", "sub")))
	require.NoError(t, fs.WriteFile(filepath.Join(tmp, "tree", "sub", "a.txt"), []byte("content"), 0644))
	archive := filepath.Join(tmp, "tree.zip")
	require.NoError(t, fs.Zip(filepath.Join(tmp, "tree"), archive))
	zipFs, file, err := NewZipFileSystemFromStandardFileSystem(archive, NoLimits())
	require.NoError(t, err)
	defer func() { _ = zipFs.Close(); _ = file.Close() }()

	require.NotPanics(t, func() {
		times, err := zipFs.StatTimes("sub/a.txt")
		if err == nil {
			assert.False(t, times.ModTime().IsZero())
		}
	})
	done := make(chan error, 1)
	go func() { done <- zipFs.GarbageCollectWithContext(context.Background(), "sub", time.Nanosecond) }()
	select {
	case err := <-done:
		t.Logf("GarbageCollect on the zip view returned: %v", err)
	case <-time.After(5 * time.Second):
		t.Fatal("GarbageCollect on the zip view did not return")
	}
	assert.True(t, zipFs.Exists("sub/a.txt"), "nothing is removed from a read-only view")
}
