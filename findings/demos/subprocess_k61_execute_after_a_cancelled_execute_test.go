package subprocess

import (
	"context"
	"testing"
	"time"

	"github.com/stretchr/testify/assert"
	"github.com/stretchr/testify/require"

	"github.com/ARM-software/golang-utils/utils/commonerrors"
	"github.com/ARM-software/golang-utils/utils/logs"
)

// A run which was interrupted with Cancel() reports 'cancelled'; the run which follows, which nobody interrupts, reports how
// its own child ended.
func TestK61ExecuteAfterACancelledExecute(t *testing.T) {
	loggers, err := logs.NewStringLogger("k61")
	require.NoError(t, err)
	wrong := 0
	const rounds = 15
	for i := 0; i < rounds; i++ {
		p, err := New(context.Background(), loggers, "", "", "", "sleep", "0.2")
		require.NoError(t, err)
		go func() {
			time.Sleep(50 * time.Millisecond)
			p.Cancel()
		}()
		err = p.Execute()
		require.Error(t, err)
		require.True(t, commonerrors.Any(err, commonerrors.ErrCancelled), "the interrupted run reports 'cancelled': %v", err)
		start := time.Now()
		err = p.Execute()
		if err != nil {
			wrong++
			t.Logf("round %v: the second run, which nobody interrupted, reported [%v] after %v", i, err, time.Since(start))
		}
	}
	assert.Zero(t, wrong, "%v of %v runs which nobody interrupted reported an error", wrong, rounds)
}
