package demo

import (
	"fmt"
	"testing"

	"github.com/shirou/gopsutil/v4/process"

	"github.com/ARM-software/golang-utils/utils/commonerrors"
	"github.com/ARM-software/golang-utils/utils/proc"
)

// F11: the two gopsutil conditions were never mapped to their kinds (Any called without the error).
func TestC11ProcessErrorKinds(t *testing.T) {
	e1 := proc.ConvertProcessError(process.ErrorNotPermitted)
	e2 := proc.ConvertProcessError(process.ErrorProcessNotRunning)
	fmt.Println("not permitted → forbidden:", commonerrors.Any(e1, commonerrors.ErrForbidden), "| not running → not found:", commonerrors.Any(e2, commonerrors.ErrNotFound))
	if !commonerrors.Any(e1, commonerrors.ErrForbidden) || !commonerrors.Any(e2, commonerrors.ErrNotFound) {
		t.Fail()
	}
}
