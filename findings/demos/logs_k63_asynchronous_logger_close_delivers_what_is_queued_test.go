package logs

import (
	"fmt"
	"sync"
	"testing"
	"time"

	"github.com/stretchr/testify/assert"
	"github.com/stretchr/testify/require"
)

type k63SlowSink struct {
	mu        sync.Mutex
	closed    bool
	delivered int
	late      int
	closes    int
}

func (s *k63SlowSink) Write(p []byte) (int, error) {
	time.Sleep(time.Millisecond)
	s.mu.Lock()
	defer s.mu.Unlock()
	if s.closed {
		s.late++
		return 0, fmt.Errorf("closed")
	}
	s.delivered++
	return len(p), nil
}
func (s *k63SlowSink) Close() error {
	s.mu.Lock()
	defer s.mu.Unlock()
	s.closed = true
	s.closes++
	return nil
}
func (s *k63SlowSink) SetSource(string) error { return nil }

// The asynchronous logger drops messages only when it reports how many: closing it hands what is still queued to the sink
// before the sink is closed.
func TestK63AsynchronousLoggerCloseDeliversWhatIsQueued(t *testing.T) {
	reports, err := NewStringLogger("dropped")
	require.NoError(t, err)
	out, errSink := &k63SlowSink{}, &k63SlowSink{}
	loggers, err := NewAsynchronousLoggers(out, errSink, 1024, 0, "k63", "k63", reports)
	require.NoError(t, err)
	const n = 100
	for i := 0; i < n; i++ {
		loggers.Log(fmt.Sprintf("message %v", i))
	}
	require.NoError(t, loggers.Close())
	out.mu.Lock()
	defer out.mu.Unlock()
	t.Logf("delivered=%v handed over after the sink was closed=%v reports=%q", out.delivered, out.late, reports.GetLogContent())
	assert.Equal(t, n, out.delivered, "%v messages were queued (the ring holds 1024), none was reported as dropped", n)
	assert.Zero(t, out.late, "messages were handed to the sink after it was closed")
}
