package safeio

// K67 / F89 (C09): the reader handed out by NewContextualReader / NewByteReader answered the raw context errors of the
// third-party contextio package once its context had ended; the writer side converts. Place in utils/safeio and run
//   go test -run TestK67 ./safeio/
// Fails before 023fd12c (cancelled-kind=false, timeout-kind=false), passes from it on.

import (
	"bytes"
	"context"
	"io"
	"testing"

	"github.com/ARM-software/golang-utils/utils/commonerrors"
)

func TestK67ContextualReaderReportsLibraryKinds(t *testing.T) {
	ctx, cancel := context.WithCancel(context.Background())
	cancel()
	_, err := NewByteReader(ctx, []byte("abc")).Read(make([]byte, 2))
	if !commonerrors.Any(err, commonerrors.ErrCancelled) {
		t.Errorf("reader with a cancelled context: %v is not of the 'cancelled' kind", err)
	}
	_, err = ContextualWriter(ctx, &bytes.Buffer{}).Write([]byte("abc"))
	if !commonerrors.Any(err, commonerrors.ErrCancelled) {
		t.Errorf("writer with a cancelled context: %v is not of the 'cancelled' kind", err)
	}
	dctx, dcancel := context.WithTimeout(context.Background(), 0)
	defer dcancel()
	_, err = NewContextualReader(dctx, bytes.NewReader([]byte("abc"))).Read(make([]byte, 2))
	if !commonerrors.Any(err, commonerrors.ErrTimeout) {
		t.Errorf("reader with an expired deadline: %v is not of the 'timeout' kind", err)
	}
	// the end of the stream stays io.EOF itself: callers of an io.Reader compare it
	b, err := io.ReadAll(NewByteReader(context.Background(), []byte("abc")))
	if err != nil || string(b) != "abc" {
		t.Errorf("ReadAll through the contextual reader: %q, %v", b, err)
	}
}
