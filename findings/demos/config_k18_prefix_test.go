package config

import (
	"os"
	"testing"

	validation "github.com/go-ozzo/ozzo-validation/v4"
	"github.com/spf13/pflag"
	"github.com/spf13/viper"
	"github.com/stretchr/testify/assert"
	"github.com/stretchr/testify/require"
)

type k18Sub struct {
	Application string `mapstructure:"application"`
}

func (c *k18Sub) Validate() error {
	return validation.ValidateStruct(c, validation.Field(&c.Application, validation.Required))
}

type k18Cfg struct {
	Application string `mapstructure:"application"`
	Sub         k18Sub `mapstructure:"sub"`
}

func (c *k18Cfg) Validate() error {
	return validation.ValidateStruct(c, validation.Field(&c.Application, validation.Required), validation.Field(&c.Sub))
}

func k18Defaults() *k18Cfg {
	return &k18Cfg{Application: "default", Sub: k18Sub{Application: "sub-default"}}
}

// A field whose tag starts with the letters of the prefix ("app" / "application") is bound like any other field.
func TestK18FlagBoundToFieldWhoseTagStartsWithThePrefix(t *testing.T) {
	os.Clearenv()
	session := viper.New()
	flagSet := pflag.FlagSet{}
	flagSet.String("application", "", "application")
	require.NoError(t, BindFlagToEnv(session, "app", "APP_APPLICATION", flagSet.Lookup("application")))
	require.NoError(t, flagSet.Set("application", "from-flag"))
	cfg := &k18Cfg{}
	require.NoError(t, LoadFromEnvironment(session, "app", cfg, k18Defaults(), ""))
	assert.Equal(t, "from-flag", cfg.Application, "an explicitly set flag has the highest priority")

	// the environment variable given without its prefix designates the same field
	session2 := viper.New()
	flagSet2 := pflag.FlagSet{}
	flagSet2.String("application", "", "application")
	require.NoError(t, BindFlagToEnv(session2, "app", "APPLICATION", flagSet2.Lookup("application")))
	require.NoError(t, flagSet2.Set("application", "from-flag"))
	cfg2 := &k18Cfg{}
	require.NoError(t, LoadFromEnvironment(session2, "app", cfg2, k18Defaults(), ""))
	assert.Equal(t, "from-flag", cfg2.Application)
}

// The names reported for an empty prefix are the names that loading honours.
func TestK18ReportedNamesWithEmptyPrefix(t *testing.T) {
	os.Clearenv()
	names, err := DetermineConfigurationEnvironmentVariables("", k18Defaults())
	require.NoError(t, err)
	for name := range names {
		os.Clearenv()
		require.NoError(t, os.Setenv(name, "from-env"))
		cfg := &k18Cfg{}
		require.NoError(t, LoadFromEnvironment(viper.New(), "", cfg, k18Defaults(), ""))
		assert.True(t, cfg.Application == "from-env" || cfg.Sub.Application == "from-env", "the reported variable %v is not honoured by loading", name)
	}
	os.Clearenv()
}
