package platform

import (
	"context"
	"os"
	"path/filepath"
	"testing"

	"github.com/stretchr/testify/assert"
	"github.com/stretchr/testify/require"
)

// When the privileged removal reports success, what it was asked to remove is gone — and nothing else.
func TestK32RemoveWithPrivilegesRemovesWhatItIsGiven(t *testing.T) {
	root := t.TempDir()
	file := filepath.Join(root, "file")
	require.NoError(t, os.WriteFile(file, []byte("x"), 0600))
	dir := filepath.Join(root, "dir")
	require.NoError(t, os.MkdirAll(filepath.Join(dir, "sub"), 0700))
	require.NoError(t, os.WriteFile(filepath.Join(dir, "sub", "f"), []byte("x"), 0600))
	outside := filepath.Join(root, "outside")
	require.NoError(t, os.MkdirAll(outside, 0700))
	require.NoError(t, os.WriteFile(filepath.Join(outside, "precious"), []byte("precious"), 0600))
	link := filepath.Join(root, "link")
	require.NoError(t, os.Symlink(outside, link))

	for _, path := range []string{file, dir, link} {
		err := RemoveWithPrivileges(context.Background(), path)
		if err != nil {
			t.Logf("removal of %v failed (%v): nothing is promised", path, err)
			continue
		}
		_, statErr := os.Lstat(path)
		assert.True(t, os.IsNotExist(statErr), "RemoveWithPrivileges(%v) reported success but the path is still there", path)
	}
	content, err := os.ReadFile(filepath.Join(outside, "precious"))
	require.NoError(t, err, "what the link points to must be left alone")
	assert.Equal(t, "precious", string(content))
}
