package platform

import (
	"context"
	"os"
	"path/filepath"
	"testing"

	"github.com/stretchr/testify/assert"
	"github.com/stretchr/testify/require"
)

// A symbolic link is removed as a link, never followed — however the caller spells its path: `link/` designates, for the
// commands run underneath (`rm -r -f -- link/`), what the link points to.
func TestK52RemoveWithPrivilegesOfALinkSpeltAsADirectory(t *testing.T) {
	tmp := t.TempDir()
	outside := filepath.Join(tmp, "outside")
	require.NoError(t, os.MkdirAll(filepath.Join(outside, "sub"), 0755))
	require.NoError(t, os.WriteFile(filepath.Join(outside, "precious.txt"), []byte("content"), 0644))
	require.NoError(t, os.WriteFile(filepath.Join(outside, "sub", "deep.txt"), []byte("content"), 0644))
	tree := filepath.Join(tmp, "tree")
	require.NoError(t, os.Mkdir(tree, 0755))
	link := filepath.Join(tree, "link")
	require.NoError(t, os.Symlink(outside, link))

	err := RemoveWithPrivileges(context.Background(), link+string(os.PathSeparator))
	t.Logf("RemoveWithPrivileges(link/) returned: %v", err)
	assert.FileExists(t, filepath.Join(outside, "precious.txt"), "what the link points to lies outside the tree and must not be touched")
	assert.FileExists(t, filepath.Join(outside, "sub", "deep.txt"))
	if err == nil {
		_, statErr := os.Lstat(link)
		assert.True(t, os.IsNotExist(statErr), "success was reported: the link must be gone")
	}
}
