package filesystem

import (
	"context"
	"path/filepath"
	"testing"

	"github.com/stretchr/testify/assert"
	"github.com/stretchr/testify/require"

	"github.com/ARM-software/golang-utils/utils/commonerrors"
)

// StatTimes reports why the file could not be looked at: 'not found' for a missing file, the 'failed condition' kind for a
// view over an archive that was closed — not 'undefined'.
func TestK64StatTimesReportsTheErrorOfStat(t *testing.T) {
	for _, fsType := range []FilesystemType{StandardFS, InMemoryFS} {
		fs := NewFs(fsType)
		tmp, err := fs.TempDirInTempDir("k64")
		require.NoError(t, err)
		defer func() { _ = fs.Rm(tmp) }()
		_, err = fs.StatTimes(filepath.Join(tmp, "missing"))
		require.Error(t, err)
		assert.True(t, commonerrors.Any(err, commonerrors.ErrNotFound), "%v: StatTimes of a missing file: %v", fsType, err)
	}
	fs := NewStandardFileSystem()
	tmp, err := fs.TempDirInTempDir("k64")
	require.NoError(t, err)
	defer func() { _ = fs.Rm(tmp) }()
	tree := filepath.Join(tmp, "tree")
	require.NoError(t, fs.MkDir(filepath.Join(tree, "d", "empty")))
	require.NoError(t, fs.WriteFile(filepath.Join(tree, "d", "f.txt"), []byte("hello"), 0600))
	archive := filepath.Join(tmp, "tree.zip")
	require.NoError(t, fs.Zip(tree, archive))
	zfs, _, err := NewZipFileSystem(fs, archive, NoLimits())
	require.NoError(t, err)

	// an empty directory of the archive is empty, and a directory with a file is not
	empty, err := zfs.IsEmpty("d/empty")
	require.NoError(t, err)
	assert.True(t, empty, "d/empty has no entry")
	empty, err = zfs.IsEmpty("d")
	require.NoError(t, err)
	assert.False(t, empty, "d holds f.txt and empty")

	require.NoError(t, zfs.Close())
	_, err = zfs.StatTimes("d/f.txt")
	require.Error(t, err)
	assert.True(t, commonerrors.Any(err, commonerrors.ErrCondition), "StatTimes on a closed view: %v", err)
	_, err = zfs.IsZipWithContext(context.Background(), "d/x.zip")
	require.Error(t, err, "a closed view cannot tell whether a file is an archive")
	assert.True(t, commonerrors.Any(err, commonerrors.ErrCondition), "IsZip on a closed view: %v", err)
}

// The limit on the size of a file is a limit on files: a directory is not refused for the size the system reports for it.
func TestK64ZipWithLimitsDoesNotMeasureDirectories(t *testing.T) {
	fs := NewStandardFileSystem()
	tmp, err := fs.TempDirInTempDir("k64")
	require.NoError(t, err)
	defer func() { _ = fs.Rm(tmp) }()
	tree := filepath.Join(tmp, "tree")
	require.NoError(t, fs.MkDir(filepath.Join(tree, "sub")))
	require.NoError(t, fs.WriteFile(filepath.Join(tree, "sub", "f.txt"), []byte("hello"), 0600))
	limits := NewLimits(1024, 1<<20, 100, -1, false)
	err = fs.ZipWithContextAndLimits(context.Background(), tree, filepath.Join(tmp, "tree.zip"), limits)
	assert.NoError(t, err, "the only file of the tree is 5 bytes long, the limit is 1024")
}
