package filesystem

import (
	"context"
	"os"
	"path/filepath"
	"testing"
	"time"

	"github.com/stretchr/testify/assert"
	"github.com/stretchr/testify/require"
)

func TestK8CopyOntoItself(t *testing.T) {
	for _, fsType := range []FilesystemType{StandardFS, InMemoryFS} {
		t.Run(fsType.String(), func(t *testing.T) {
			fs := NewFs(fsType)
			root, err := fs.TempDirInTempDir("k8-")
			require.NoError(t, err)
			defer func() { _ = fs.Rm(root) }()
			d := filepath.Join(root, "d")
			require.NoError(t, fs.MkDir(d))
			f := filepath.Join(d, "f")
			require.NoError(t, fs.WriteFile(f, []byte("precious content"), 0o644))
			for _, c := range []struct{ name, dst string }{{"into its own directory", d}, {"onto itself", f}} {
				err = fs.Copy(f, c.dst)
				got, rerr := fs.ReadFile(f)
				require.NoError(t, rerr)
				t.Logf("Copy(f, %s): err=%v, source now %q", c.name, err, string(got))
				assert.Equal(t, "precious content", string(got), "a copy changed its source (%s)", c.name)
			}
		})
	}
}

func TestK8CopyIntoOwnSubdirectory(t *testing.T) {
	for _, fsType := range []FilesystemType{StandardFS, InMemoryFS} {
		t.Run(fsType.String(), func(t *testing.T) {
			fs := NewFs(fsType)
			root, err := fs.TempDirInTempDir("k8-")
			require.NoError(t, err)
			defer func() { _ = fs.Rm(root) }()
			d := filepath.Join(root, "d")
			require.NoError(t, fs.MkDir(filepath.Join(d, "sub")))
			require.NoError(t, fs.WriteFile(filepath.Join(d, "f"), []byte("x"), 0o644))
			ctx, cancel := context.WithTimeout(context.Background(), 3*time.Second)
			defer cancel()
			done := make(chan error, 1)
			go func() { done <- fs.CopyWithContext(ctx, d, filepath.Join(d, "sub")) }()
			select {
			case err := <-done:
				t.Logf("Copy(d, d/sub) returned: %v", err)
				var n int
				_ = fs.Walk(root, func(string, os.FileInfo, error) error { n++; return nil })
				t.Logf("entries under root afterwards: %d", n)
				assert.NotErrorIs(t, err, context.DeadlineExceeded)
				assert.Less(t, n, 50, "the copy fed on its own output")
			case <-time.After(10 * time.Second):
				t.Errorf("Copy(d, d/sub) did not terminate")
			}
		})
	}
}
