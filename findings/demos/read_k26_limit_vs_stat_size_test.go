package filesystem

import (
	"context"
	"os"
	"path/filepath"
	"testing"

	"github.com/stretchr/testify/assert"
	"github.com/stretchr/testify/require"

	"github.com/ARM-software/golang-utils/utils/commonerrors"
)

// Limited file reads refuse larger files with the 'too large' kind, also when Stat() under-reports the size.
func TestK26LimitedReadOfFilesWhoseSizeStatDoesNotReport(t *testing.T) {
	fs := NewStandardFileSystem()
	limits := NewLimits(100, 1000, 10, -1, false)
	for _, path := range []string{"/proc/self/status", "/dev/zero"} {
		if !fs.Exists(path) {
			continue
		}
		content, err := fs.ReadFileWithContextAndLimits(context.Background(), path, limits)
		assert.Truef(t, commonerrors.Any(err, commonerrors.ErrTooLarge), "[%v] expected 'too large', got %d bytes and %v", path, len(content), err)
		assert.Empty(t, content)
	}
	// files at and around the limit
	dir := t.TempDir()
	for size, refused := range map[int]bool{1: false, 99: false, 100: false, 101: true, 5000: true} {
		path := filepath.Join(dir, "f")
		require.NoError(t, os.WriteFile(path, make([]byte, size), 0600))
		content, err := fs.ReadFileWithContextAndLimits(context.Background(), path, limits)
		if refused {
			assert.Truef(t, commonerrors.Any(err, commonerrors.ErrTooLarge), "size %d: %v", size, err)
		} else {
			require.NoErrorf(t, err, "size %d", size)
			assert.Len(t, content, size)
		}
	}
}
