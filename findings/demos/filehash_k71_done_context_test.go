package filesystem

import (
	"context"
	"path/filepath"
	"testing"

	"github.com/ARM-software/golang-utils/utils/commonerrors"
	"github.com/ARM-software/golang-utils/utils/hashing"
)

// K71 / F93 (C09): IFileHash.CalculateFileWithContext looked at the path before it looked at its context.
func TestK71FileHashWithADoneContext(t *testing.T) {
	fs := NewFs(InMemoryFS)
	if err := fs.MkDir("/k71/dir"); err != nil {
		t.Fatal(err)
	}
	hasher, err := NewFileHash(hashing.HashSha256)
	if err != nil {
		t.Fatal(err)
	}
	ctx, cancel := context.WithCancel(context.Background())
	cancel()
	for _, p := range []string{"/k71/dir", filepath.Join("/k71", "missing")} {
		_, err = hasher.CalculateFileWithContext(ctx, fs, p)
		t.Logf("%v: %v", p, err)
		if !commonerrors.Any(err, commonerrors.ErrCancelled) {
			t.Errorf("CalculateFileWithContext(%v) with a context that is already cancelled answered [%v], not 'cancelled'", p, err)
		}
	}
}
