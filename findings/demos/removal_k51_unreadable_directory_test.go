package filesystem

import (
	"os"
	"path/filepath"
	"testing"

	"github.com/stretchr/testify/assert"
	"github.com/stretchr/testify/require"
)

// Needs an unprivileged user (root opens any directory): e.g.
//   go test -c -o /tmp/k51/fs.test ./filesystem/ && chmod -R a+rx /tmp/k51 && setpriv --reuid=65534 --regid=65534 --clear-groups /tmp/k51/fs.test -test.run TestK51
// A removal which reports success has removed the tree: a directory which cannot be read is not a directory which is not there.
func TestK51RemovalOfATreeWithAnUnreadableDirectory(t *testing.T) {
	if os.Geteuid() == 0 {
		t.Skip("root can open any directory")
	}
	fs := NewStandardFileSystem()
	tmp, err := os.MkdirTemp("", "k51")
	require.NoError(t, err)
	tree := filepath.Join(tmp, "tree")
	sub := filepath.Join(tree, "sub")
	require.NoError(t, os.MkdirAll(sub, 0755))
	require.NoError(t, os.Chmod(sub, 0000))
	defer func() {
		_ = os.Chmod(sub, 0755)
		_ = os.RemoveAll(tmp)
	}()
	assert.True(t, fs.Exists(sub), "an unreadable directory exists")
	err = fs.Rm(tree)
	_, statErr := os.Lstat(tree)
	if err == nil {
		assert.True(t, os.IsNotExist(statErr), "Rm reported success: the tree must be gone (Lstat: %v)", statErr)
	} else {
		t.Logf("Rm reported: %v", err)
	}
}
