package proc

import (
	"context"
	"fmt"
	"testing"

	"github.com/stretchr/testify/assert"

	"github.com/ARM-software/golang-utils/utils/commonerrors"
)

// A cancellation or a deadline is never reclassified, whatever the description of the error says.
func TestK21ProcessConverterKeepsContextCauses(t *testing.T) {
	for _, e := range []error{
		commonerrors.New(commonerrors.ErrCancelled, "wait: signal: killed"),
		commonerrors.New(commonerrors.ErrTimeout, "wait: signal: terminated"),
		fmt.Errorf("%w: signal: killed", context.Canceled),
		fmt.Errorf("%w: signal: killed", context.DeadlineExceeded),
	} {
		converted := ConvertProcessError(e)
		assert.Truef(t, commonerrors.Any(converted, commonerrors.ErrCancelled, commonerrors.ErrTimeout), "[%v] converted to [%v]", e, converted)
	}
}
