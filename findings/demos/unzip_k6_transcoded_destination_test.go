package filesystem

import (
	"archive/zip"
	"bytes"
	"context"
	"os"
	"path/filepath"
	"sort"
	"testing"

	"github.com/stretchr/testify/require"
)

func k6Zip(t *testing.T, names ...string) []byte {
	var buf bytes.Buffer
	w := zip.NewWriter(&buf)
	for _, n := range names {
		fw, err := w.CreateHeader(&zip.FileHeader{Name: n, NonUTF8: true, Method: zip.Store})
		require.NoError(t, err)
		_, err = fw.Write([]byte("hello"))
		require.NoError(t, err)
	}
	require.NoError(t, w.Close())
	return buf.Bytes()
}

func k6Snapshot(t *testing.T, fs FS, root string) []string {
	var out []string
	require.NoError(t, fs.Walk(root, func(p string, info os.FileInfo, err error) error {
		if err != nil {
			return nil
		}
		out = append(out, p)
		return nil
	}))
	sort.Strings(out)
	return out
}

func TestK6_DestinationPrefixIsTranscodedToo(t *testing.T) {
	for _, fsType := range []FilesystemType{InMemoryFS, StandardFS} {
		t.Run(fsType.String(), func(t *testing.T) {
			fs := NewFs(fsType)
			root, err := fs.TempDirInTempDir("k6-")
			require.NoError(t, err)
			defer func() { _ = fs.Rm(root) }()
			dest := filepath.Join(root, "josé", "dest")
			require.NoError(t, fs.MkDir(dest))
			src := filepath.Join(root, "a.zip")
			require.NoError(t, fs.WriteFile(src, k6Zip(t, "caf\xe9 cr\xe8me br\xfbl\xe9e.txt"), 0o644))
			before := k6Snapshot(t, fs, root)
			_, err = fs.UnzipWithContext(context.Background(), src, dest)
			after := k6Snapshot(t, fs, root)
			var outside []string
			seen := map[string]bool{}
			for _, p := range before {
				seen[p] = true
			}
			for _, p := range after {
				if !seen[p] && !(len(p) >= len(dest) && p[:len(dest)] == dest) {
					outside = append(outside, p)
				}
			}
			t.Logf("err=%v\nafter=%q", err, after)
			require.Empty(t, outside, "entries created outside the destination")
		})
	}
}
