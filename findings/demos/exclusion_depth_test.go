package demo

import (
	"context"
	"fmt"
	"os"
	"path/filepath"
	"testing"

	"github.com/ARM-software/golang-utils/utils/filesystem"
)

func mk(root string) {
	_ = os.MkdirAll(filepath.Join(root, "a", "b"), 0o755)
	_ = os.WriteFile(filepath.Join(root, "keep"), []byte("x"), 0o644)
	_ = os.WriteFile(filepath.Join(root, "a", "keep"), []byte("x"), 0o644)
	_ = os.WriteFile(filepath.Join(root, "a", "b", "keep"), []byte("x"), 0o644)
	_ = os.WriteFile(filepath.Join(root, "a", "other"), []byte("x"), 0o644)
}
func ls(root string) (out []string) {
	_ = filepath.Walk(root, func(p string, _ os.FileInfo, _ error) error { r, _ := filepath.Rel(root, p); out = append(out, r); return nil })
	return
}

func TestC08DeepExclusion(t *testing.T) {
	fs := filesystem.NewStandardFileSystem()
	root := filepath.Join(t.TempDir(), "r")
	mk(root)
	err := fs.RemoveWithContextAndExclusionPatterns(context.Background(), root, "^keep$")
	fmt.Println("Remove err:", err, "survivors:", ls(root))
	root2 := filepath.Join(t.TempDir(), "r")
	mk(root2)
	err = fs.CleanDirWithContextAndExclusionPatterns(context.Background(), root2, "^keep$")
	fmt.Println("Clean  err:", err, "survivors:", ls(root2))
	root3 := filepath.Join(t.TempDir(), "r")
	mk(root3)
	l, err := fs.LsRecursiveWithExclusionPatterns(context.Background(), root3, true, "^keep$")
	fmt.Println("LsRec  err:", err, l)
	dst := filepath.Join(t.TempDir(), "c")
	err = fs.CopyWithContextAndExclusionPatterns(context.Background(), root3, dst, "^keep$")
	fmt.Println("Copy   err:", err, ls(dst))
}
