package filesystem

import (
	"path/filepath"
	"sort"
	"testing"

	"github.com/stretchr/testify/assert"
	"github.com/stretchr/testify/require"
)

// However the source directory is spelt, the archive holds its entries only and the list of extracted paths names exactly the entries created.
func TestK37ZipOfASourceSpeltWithATrailingSeparator(t *testing.T) {
	fs := NewStandardFileSystem()
	root := t.TempDir()
	src := filepath.Join(root, "src")
	require.NoError(t, fs.MkDir(filepath.Join(src, "sub")))
	require.NoError(t, fs.WriteFile(filepath.Join(src, "sub", "f"), []byte("f"), 0600))
	var reference []string
	for i, spelling := range []string{src, src + string(fs.PathSeparator()), filepath.Join(src, ".") + string(fs.PathSeparator()) + "."} {
		archive := filepath.Join(root, "a.zip")
		_ = fs.Rm(archive)
		require.NoError(t, fs.Zip(spelling, archive))
		dest := filepath.Join(root, "dest")
		_ = fs.Rm(dest)
		list, err := fs.Unzip(archive, dest)
		require.NoError(t, err)
		var rel []string
		for _, p := range list {
			r, err := filepath.Rel(dest, p)
			require.NoError(t, err)
			rel = append(rel, r)
		}
		sort.Strings(rel)
		if i == 0 {
			reference = rel
			assert.Equal(t, []string{"sub", filepath.Join("sub", "f")}, rel)
			continue
		}
		assert.Equal(t, reference, rel, "source spelt [%v]", spelling)
	}
}
