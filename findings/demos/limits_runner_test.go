package demo

// Demonstrations (run by hand, see README.md) for:
//   C03  directory entries are counted but never compared with the file-count limit
//   C12  RunActionWithTimeout blocks forever when the action finishes at the deadline

import (
	"archive/zip"
	"context"
	"fmt"
	"os"
	"path/filepath"
	"testing"
	"time"

	"github.com/ARM-software/golang-utils/utils/filesystem"
	"github.com/ARM-software/golang-utils/utils/parallelisation"
)

func TestC03DirCount(t *testing.T) {
	root := t.TempDir()
	zp := filepath.Join(root, "dirs.zip")
	f, _ := os.Create(zp)
	w := zip.NewWriter(f)
	for i := 0; i < 50; i++ {
		_, _ = w.Create(fmt.Sprintf("d%d/", i))
	}
	_ = w.Close()
	_ = f.Close()
	lim := filesystem.NewLimits(1<<20, 1<<30, 3, 10, false)
	list, err := filesystem.NewStandardFileSystem().UnzipWithContextAndLimits(context.Background(), zp, filepath.Join(root, "out"), lim)
	fmt.Println("dirs-only archive, max count 3: err =", err, "entries created =", len(list))
}

func TestC12TimeoutRunnerHang(t *testing.T) {
	done := make(chan int, 1)
	go func() {
		n := 0
		for i := 0; i < 200000; i++ {
			_ = parallelisation.RunActionWithTimeout(func(stop chan bool) error { return nil }, 0)
			n++
		}
		done <- n
	}()
	select {
	case n := <-done:
		fmt.Println("no hang in", n, "runs")
	case <-time.After(20 * time.Second):
		fmt.Println("RunActionWithTimeout HUNG (blocked forever on stop<-true)")
	}
}
