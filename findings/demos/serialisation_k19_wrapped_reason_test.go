package commonerrors

import (
	"testing"

	"github.com/stretchr/testify/assert"
	"github.com/stretchr/testify/require"
)

// The text of an error built with the library's constructors survives serialisation whatever the wrapping chain.
func TestK19SerialisationOfWrappedCommonErrors(t *testing.T) {
	for name, e := range map[string]error{
		"WrapIfNotCommonError(New)":  WrapIfNotCommonError(ErrUnexpected, New(ErrNotFound, "file a"), "ctx"),
		"WrapError(New)":             WrapError(ErrInvalid, New(ErrTimeout, "t"), "msg"),
		"New(New)":                   New(New(ErrConflict, "inner"), "outer"),
		"Newf(WrapError(Errorf))":    Newf(WrapError(ErrForbidden, Errorf(ErrEmpty, "e %d", 1), "w"), "n %v", "x"),
		"WrapIfNotCommonErrorf(std)": WrapIfNotCommonErrorf(ErrUnexpected, assert.AnError, "ctx %v", 2),
	} {
		t.Run(name, func(t *testing.T) {
			text, err := SerialiseError(e)
			require.NoError(t, err)
			assert.Equal(t, e.Error(), string(text), "the serialised text is not the text of the error")
			d, err := DeserialiseError(text)
			require.NoError(t, err)
			assert.Equal(t, e.Error(), d.Error(), "the deserialised error does not read like the original")
			for _, kind := range []error{ErrNotFound, ErrTimeout, ErrConflict, ErrEmpty, ErrInvalid, ErrUnexpected, ErrForbidden} {
				assert.Equal(t, Any(e, kind), Any(d, kind), "kind %v", kind)
			}
		})
	}
}
