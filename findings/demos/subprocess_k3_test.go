package demo

import (
	"context"
	"fmt"
	"os/exec"
	"strings"
	"testing"
	"time"

	"github.com/ARM-software/golang-utils/utils/logs"
	"github.com/ARM-software/golang-utils/utils/subprocess"
)

func TestK3CancelTree(t *testing.T) {
	l, _ := logs.NewPlainStringLogger()
	ctx, cancel := context.WithCancel(context.Background())
	p, err := subprocess.New(ctx, l, "start", "ok", "ko", "sh", "-c", "sleep 31 & sleep 32")
	if err != nil {
		t.Fatal(err)
	}
	ret := make(chan error, 1)
	t0 := time.Now()
	go func() { ret <- p.Execute() }()
	time.Sleep(300 * time.Millisecond)
	cancel()
	select {
	case e := <-ret:
		fmt.Println("Execute returned after", time.Since(t0).Round(time.Millisecond), "err:", e)
	case <-time.After(5 * time.Second):
		fmt.Println("Execute still blocked 5s after cancel")
	}
	out, _ := exec.Command("sh", "-c", "ps -eo pid,ppid,pgid,args | grep 'sleep 3[12]' | grep -v grep").CombinedOutput()
	fmt.Println("survivors:\n" + strings.TrimSpace(string(out)))
	_ = exec.Command("pkill", "-f", "sleep 3[12]").Run()
}
