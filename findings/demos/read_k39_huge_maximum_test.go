package safeio

import (
	"context"
	"math"
	"strings"
	"testing"

	"github.com/stretchr/testify/assert"
	"github.com/stretchr/testify/require"
)

// A bounded read returns the whole source when it is shorter than the maximum, however large the maximum is.
func TestK39ReadAtMostWithAHugeMaximum(t *testing.T) {
	for _, max := range []int64{4, 1 << 20, 1 << 40, math.MaxInt64} {
		var content []byte
		var err error
		require.NotPanics(t, func() {
			content, err = ReadAtMost(context.Background(), strings.NewReader("abc"), max, -1)
		}, "maximum %v", max)
		require.NoError(t, err)
		assert.Equal(t, "abc", string(content))
	}
}
