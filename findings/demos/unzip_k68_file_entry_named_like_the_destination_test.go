package filesystem

import (
	"archive/zip"
	"bytes"
	"context"
	"os"
	"path/filepath"
	"testing"
)

func k68Archive(t *testing.T, name string, content []byte) []byte {
	t.Helper()
	var buf bytes.Buffer
	w := zip.NewWriter(&buf)
	h := &zip.FileHeader{Name: name, Method: zip.Store}
	h.SetMode(0o644)
	f, err := w.CreateHeader(h)
	if err != nil {
		t.Fatal(err)
	}
	if _, err = f.Write(content); err != nil {
		t.Fatal(err)
	}
	if err = w.Close(); err != nil {
		t.Fatal(err)
	}
	return buf.Bytes()
}

// K68 / F90 (C02): a *file* entry whose name resolves to the destination itself ("." or "a/..") was accepted by the sanitiser.
func TestK68FileEntryNamedLikeTheDestinationItself(t *testing.T) {
	// (a) in-memory backend: the destination directory is named like an archive; 42 bytes which are an empty archive
	// (the in-memory backend reports 42 bytes for a directory) are written onto the directory node.
	t.Run("in-memory", func(t *testing.T) {
		fs := NewFs(InMemoryFS)
		payload := append([]byte("PK\x03\x04"), make([]byte, 16)...)
		payload = append(payload, []byte("PK\x05\x06")...)
		payload = append(payload, make([]byte, 18)...)
		if len(payload) != 42 {
			t.Fatalf("payload of %v bytes", len(payload))
		}
		if err := fs.MkDir("/work/T"); err != nil {
			t.Fatal(err)
		}
		if err := fs.WriteFile("/work/source.zip", k68Archive(t, ".", payload), 0o644); err != nil {
			t.Fatal(err)
		}
		before, _ := fs.Ls("/work/T")
		list, err := fs.UnzipWithContextAndLimits(context.Background(), "/work/source.zip", "/work/T/out.zip", RecursiveZipLimits(5))
		after, _ := fs.Ls("/work/T")
		t.Logf("answer: %v, %v; /work/T before %v after %v", list, err, before, after)
		for _, n := range after {
			if n != "out.zip" {
				t.Errorf("[%v] was created next to the destination /work/T/out.zip", n)
			}
		}
	})
	// (b) OS backend: the destination exists as a regular file named like an archive
	t.Run("os, destination is a file", func(t *testing.T) {
		fs := NewFs(StandardFS)
		tmp := t.TempDir()
		work := filepath.Join(tmp, "T")
		if err := os.MkdirAll(work, 0o755); err != nil {
			t.Fatal(err)
		}
		dest := filepath.Join(work, "out.zip")
		if err := os.WriteFile(dest, []byte("precious"), 0o644); err != nil {
			t.Fatal(err)
		}
		inner := k68Archive(t, "pwned.txt", []byte("pwned"))
		source := filepath.Join(tmp, "source.zip")
		if err := os.WriteFile(source, k68Archive(t, ".", inner), 0o644); err != nil {
			t.Fatal(err)
		}
		list, err := fs.UnzipWithContextAndLimits(context.Background(), source, dest, RecursiveZipLimits(5))
		entries, _ := os.ReadDir(work)
		names := []string{}
		for _, e := range entries {
			names = append(names, e.Name())
		}
		t.Logf("answer: %v, %v; T holds %v", list, err, names)
		for _, n := range names {
			if n != "out.zip" {
				t.Errorf("[%v] was created next to the destination", n)
			}
		}
		if content, rerr := os.ReadFile(dest); rerr != nil || string(content) != "precious" {
			t.Errorf("the file at the destination was replaced or removed: %q, %v", content, rerr)
		}
	})
}
