package proc

import (
	"os"
	"os/exec"
	"testing"

	"github.com/stretchr/testify/assert"
	"github.com/stretchr/testify/require"

	"github.com/ARM-software/golang-utils/utils/commonerrors"
)

// The kind a process error is converted to does not depend on the name of the command.
func TestK35MissingCommandNamedAfterASignal(t *testing.T) {
	for _, name := range []string{"no-such-command-k35", "signal: killed", "signal: terminated"} {
		err := exec.Command(name).Run()
		require.Error(t, err)
		converted := ConvertProcessError(err)
		assert.Truef(t, commonerrors.Any(converted, commonerrors.ErrNotFound), "[%v] converted to %v", name, converted)
		assert.NotErrorIs(t, converted, os.ErrProcessDone)
	}
}
