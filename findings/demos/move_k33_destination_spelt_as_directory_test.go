package filesystem

import (
	"path/filepath"
	"sort"
	"testing"

	"github.com/stretchr/testify/assert"
	"github.com/stretchr/testify/require"
)

// mv f newdir/ (missing directory, spelt as a directory): both backends create the directory and put the file in it.
func TestK33MoveToAMissingDirectorySpeltWithASeparator(t *testing.T) {
	for name, fs := range map[string]FS{"os": NewStandardFileSystem(), "mem": NewInMemoryFileSystem()} {
		t.Run(name, func(t *testing.T) {
			root, err := fs.TempDirInTempDir("k33-")
			require.NoError(t, err)
			defer func() { _ = fs.Rm(root) }()
			f := filepath.Join(root, "f.txt")
			require.NoError(t, fs.WriteFile(f, []byte("x"), 0600))
			dest := filepath.Join(root, "newdir") + string(fs.PathSeparator())
			require.NoError(t, fs.Move(f, dest))
			isDir, _ := fs.IsDir(filepath.Join(root, "newdir"))
			assert.True(t, isDir, "newdir is not a directory")
			var tree []string
			require.NoError(t, fs.ListDirTree(root, &tree))
			var rel []string
			for _, p := range tree {
				r, _ := filepath.Rel(root, p)
				rel = append(rel, r)
			}
			sort.Strings(rel)
			assert.Equal(t, []string{"newdir", filepath.Join("newdir", "f.txt")}, rel)
			// and a folder
			d := filepath.Join(root, "d")
			require.NoError(t, fs.MkDir(d))
			require.NoError(t, fs.WriteFile(filepath.Join(d, "g"), []byte("g"), 0600))
			require.NoError(t, fs.Move(d, filepath.Join(root, "nd2")+string(fs.PathSeparator())))
			assert.True(t, fs.Exists(filepath.Join(root, "nd2", "g")))
			assert.False(t, fs.Exists(d))
		})
	}
}
