package http

import (
	"net/http"
	"testing"
	"time"

	"github.com/go-http-utils/headers"
	"github.com/stretchr/testify/require"
)

// The wait derived from a Retry-After date is never negative, however close to 'now' the date is.
func TestK40RetryAfterDateAboutNow(t *testing.T) {
	for i := 0; i < 200000; i++ {
		resp := &http.Response{StatusCode: http.StatusServiceUnavailable, Header: http.Header{}}
		resp.Header[headers.RetryAfter] = []string{time.Now().Add(time.Duration(i%5) * time.Microsecond).UTC().Format(time.RFC3339Nano)}
		wait, found := findRetryAfter(resp)
		require.True(t, found)
		require.GreaterOrEqual(t, wait, time.Duration(0), "iteration %v", i)
	}
}
