package filesystem

import (
	"os"
	"os/exec"
	"syscall"
	"testing"

	"github.com/stretchr/testify/assert"

	"github.com/ARM-software/golang-utils/utils/commonerrors"
	"github.com/ARM-software/golang-utils/utils/proc"
)

// The converters are applied by helpers which call one another: converting an error which was already converted must not change its kind.
func TestK42ConvertersAppliedTwice(t *testing.T) {
	fsErr := &os.PathError{Op: "open", Path: "/tmp/file exists.txt", Err: syscall.ENOENT}
	once := ConvertFileSystemError(fsErr)
	assert.True(t, commonerrors.Any(once, commonerrors.ErrNotFound), "%v", once)
	twice := ConvertFileSystemError(once)
	assert.True(t, commonerrors.Any(twice, commonerrors.ErrNotFound), "%v", twice)
	assert.False(t, commonerrors.Any(twice, commonerrors.ErrExists), "%v", twice)

	fsErr = &os.PathError{Op: "open", Path: "/tmp/not supported/f", Err: syscall.ENOENT}
	twice = ConvertFileSystemError(ConvertFileSystemError(fsErr))
	assert.True(t, commonerrors.Any(twice, commonerrors.ErrNotFound), "%v", twice)
	assert.False(t, commonerrors.Any(twice, commonerrors.ErrUnsupported), "%v", twice)

	procErr := &exec.Error{Name: "not implemented", Err: exec.ErrNotFound}
	once = proc.ConvertProcessError(procErr)
	assert.True(t, commonerrors.Any(once, commonerrors.ErrNotFound), "%v", once)
	twice = proc.ConvertProcessError(once)
	assert.True(t, commonerrors.Any(twice, commonerrors.ErrNotFound), "%v", twice)
	assert.False(t, commonerrors.Any(twice, commonerrors.ErrNotImplemented), "%v", twice)
}
