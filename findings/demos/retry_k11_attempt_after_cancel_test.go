package retry

import (
	"context"
	"errors"
	"testing"
	"time"

	"github.com/go-logr/logr"
	"github.com/stretchr/testify/assert"
)

// With no wait between attempts nothing looks at the context between two attempts.
func TestK11NoAttemptOnceTheContextIsDone(t *testing.T) {
	policy := &RetryPolicyConfiguration{Enabled: true, RetryMax: 8, RetryWaitMin: 0, RetryWaitMax: time.Second}
	extra := 0
	for i := 0; i < 200; i++ {
		ctx, cancel := context.WithCancel(context.Background())
		attemptsAfterCancel := 0
		cancelled := false
		_ = RetryIf(ctx, logr.Discard(), policy, func() error {
			if cancelled {
				attemptsAfterCancel++
			}
			cancelled = true
			cancel()
			return errors.New("retriable")
		}, "retrying", func(error) bool { return true })
		cancel()
		if attemptsAfterCancel > 0 {
			extra++
		}
	}
	t.Logf("%d of 200 runs attempted the operation again after the context was done", extra)
	assert.Zero(t, extra)
}
