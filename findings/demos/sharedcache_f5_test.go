package demo

import (
	"context"
	"fmt"
	"os"
	"path/filepath"
	"testing"
	"time"

	"github.com/ARM-software/golang-utils/utils/filesystem"
	"github.com/ARM-software/golang-utils/utils/sharedcache"
)

// F5 end to end: A holds the entry lock of key k; client B's Store times out on the lock.
// Before the fix B's deferred Unlock removed A's lock directory, so C could acquire while A held.
func TestC16SharedCacheTimeoutKeepsForeignLock(t *testing.T) {
	fs := filesystem.NewStandardFileSystem()
	remote := t.TempDir()
	src := t.TempDir()
	_ = os.WriteFile(filepath.Join(src, "f.txt"), []byte("hello"), 0o644)
	cfg := &sharedcache.Configuration{RemoteStoragePath: remote, Timeout: 150 * time.Millisecond}
	cache, err := sharedcache.NewSharedMutableCacheRepository(cfg, fs)
	if err != nil {
		t.Fatal(err)
	}
	ctx := context.Background()
	key := "k"
	entry := filepath.Join(remote, key)
	_ = os.MkdirAll(entry, 0o755)
	a := filesystem.NewRemoteLockFile(fs.(*filesystem.VFS), "SharedMutableCache-"+key, entry)
	fmt.Println("A acquires entry lock:", a.TryLock(ctx))
	fmt.Println("B Store while A holds:", cache.Store(ctx, key, src))
	c := filesystem.NewRemoteLockFile(fs.(*filesystem.VFS), "SharedMutableCache-"+key, entry)
	errC := c.TryLock(ctx)
	fmt.Println("C TryLock while A still holds:", errC)
	if errC == nil {
		t.Fatal("A's lock was destroyed by B's failed Store")
	}
	_ = a.Unlock(ctx)
}
