package sharedcache

import (
	"context"
	"errors"
	"os"
	"path/filepath"
	"strings"
	"sync/atomic"
	"testing"
	"time"

	"github.com/spf13/afero"
	"github.com/stretchr/testify/assert"
	"github.com/stretchr/testify/require"

	"github.com/ARM-software/golang-utils/utils/filesystem"
)

// k25FS fails the opening for writing of the .hash side files of the cache whilst told to.
type k25FS struct {
	afero.Fs
	failSideFileWrites atomic.Bool
}

func (f *k25FS) OpenFile(name string, flag int, perm os.FileMode) (afero.File, error) {
	if f.failSideFileWrites.Load() && flag&(os.O_WRONLY|os.O_RDWR) != 0 && strings.HasSuffix(name, hashFileDescriptor) && strings.Contains(name, "remote") {
		return nil, errors.New("k25: cannot open the side file for writing")
	}
	return f.Fs.OpenFile(name, flag, perm)
}

// A Store that reports success makes its version the one subsequent Fetches return, even if an individual filesystem
// operation (here: refreshing the .hash side file in the cache) failed while it ran.
func TestK25StoreSucceedsAlthoughTheSideFileCouldNotBeRefreshed(t *testing.T) {
	backend := &k25FS{Fs: afero.NewOsFs()}
	fs := filesystem.NewVirtualFileSystem(backend, filesystem.StandardFS, filesystem.IdentityPathConverterFunc)
	root := t.TempDir()
	remote := filepath.Join(root, "remote")
	require.NoError(t, fs.MkDir(remote))
	cfg := &Configuration{RemoteStoragePath: remote, Timeout: 2 * time.Second}
	cache, err := NewSharedMutableCacheRepository(cfg, fs)
	require.NoError(t, err)
	ctx := context.Background()
	key := "k25"

	src := filepath.Join(root, "src")
	require.NoError(t, fs.MkDir(src))
	require.NoError(t, fs.WriteFile(filepath.Join(src, "version"), []byte("one"), 0600))
	require.NoError(t, cache.Store(ctx, key, src))

	require.NoError(t, fs.WriteFile(filepath.Join(src, "version"), []byte("two - and somewhat longer"), 0600))
	backend.failSideFileWrites.Store(true)
	storeErr := cache.Store(ctx, key, src)
	backend.failSideFileWrites.Store(false)
	if storeErr != nil {
		t.Logf("the second Store reported its failure (%v): nothing is promised", storeErr)
		return
	}
	dest := filepath.Join(root, "dest")
	require.NoError(t, fs.MkDir(dest))
	err = cache.Fetch(ctx, key, dest)
	require.NoError(t, err, "the second Store reported success: Fetch must return its version")
	content, err := fs.ReadFile(filepath.Join(dest, "version"))
	require.NoError(t, err)
	assert.Equal(t, "two - and somewhat longer", string(content))
}
