package config

import (
	"os"
	"testing"

	validation "github.com/go-ozzo/ozzo-validation/v4"
	"github.com/spf13/viper"
	"github.com/stretchr/testify/assert"
	"github.com/stretchr/testify/require"
)

type k36Cfg struct {
	Count string `mapstructure:"count"`
}

func (c *k36Cfg) Validate() error {
	return validation.ValidateStruct(c, validation.Field(&c.Count, validation.Required))
}

// The names reported for a prefix containing the key separator are the names that loading honours.
func TestK36ReportedNamesWithADotInThePrefix(t *testing.T) {
	prefix := "my.app"
	names, err := DetermineConfigurationEnvironmentVariables(prefix, &k36Cfg{Count: "default"})
	require.NoError(t, err)
	require.Len(t, names, 1)
	for name := range names {
		os.Clearenv()
		require.NoError(t, os.Setenv(name, "from-env"))
		cfg := &k36Cfg{}
		require.NoError(t, LoadFromEnvironment(viper.New(), prefix, cfg, &k36Cfg{Count: "default"}, ""))
		assert.Equal(t, "from-env", cfg.Count, "the reported variable %v is not honoured by loading", name)
	}
	os.Clearenv()
}
