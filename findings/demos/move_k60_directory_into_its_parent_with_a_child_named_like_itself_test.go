package filesystem

import (
	"context"
	"path/filepath"
	"sort"
	"testing"

	"github.com/stretchr/testify/assert"
	"github.com/stretchr/testify/require"

	"github.com/ARM-software/golang-utils/utils/commonerrors"
)

// A directory moved into its own parent, with a child named like itself: whatever the call answers, it answers the same on
// both backends, and what it leaves behind is a tree in which everything that exists is listed.
func TestK60MoveOfADirectoryIntoItsParentWithAChildNamedLikeItself(t *testing.T) {
	var kinds []string
	for _, fsType := range []FilesystemType{StandardFS, InMemoryFS} {
		fs := NewFs(fsType)
		root, err := fs.TempDirInTempDir("k60")
		require.NoError(t, err)
		defer func() { _ = fs.Rm(root) }()
		a := filepath.Join(root, "a")
		require.NoError(t, fs.MkDir(filepath.Join(a, "b", "b")))
		require.NoError(t, fs.WriteFile(filepath.Join(a, "b", "b", "f"), []byte("content"), 0600))

		err = fs.MoveWithContext(context.Background(), filepath.Join(a, "b"), a)
		kind := "nil"
		if err != nil {
			kind = "other"
			for _, k := range []error{commonerrors.ErrExists, commonerrors.ErrInvalid, commonerrors.ErrNotFound, commonerrors.ErrConflict} {
				if commonerrors.Any(err, k) {
					kind = k.Error()
				}
			}
		}
		kinds = append(kinds, kind)
		listed, lerr := fs.LsRecursive(context.Background(), root, true)
		require.NoError(t, lerr)
		sort.Strings(listed)
		t.Logf("%v: Move answered %v; tree: %v", fsType, kind, listed)
		for _, candidate := range []string{filepath.Join("a", "b", "f"), filepath.Join("a", "b", "b", "f"), filepath.Join("a", "f")} {
			if fs.Exists(filepath.Join(root, candidate)) {
				assert.Contains(t, listed, filepath.Join(root, candidate), "%v: [%v] exists but is not listed: it was left behind by the removal of its directory", fsType, candidate)
			}
		}
	}
	assert.Equal(t, kinds[0], kinds[1], "the two backends answer alike")
}
