package filesystem

import (
	"context"
	"path/filepath"
	"sync"
	"testing"

	"github.com/stretchr/testify/assert"
	"github.com/stretchr/testify/require"

	"github.com/ARM-software/golang-utils/utils/commonerrors"
)

// k45CountingContext gets cancelled once its state has been consulted a given number of times.
type k45CountingContext struct {
	context.Context
	mu        sync.Mutex
	remaining int
	done      chan struct{}
	cancelled bool
}

func (c *k45CountingContext) Err() error {
	c.mu.Lock()
	defer c.mu.Unlock()
	if c.cancelled {
		return context.Canceled
	}
	if c.remaining <= 0 {
		c.cancelled = true
		close(c.done)
		return context.Canceled
	}
	c.remaining--
	return nil
}

func (c *k45CountingContext) Done() <-chan struct{} { return c.done }

// Whenever the context ends during a (recursive) extraction, the extraction reports it: it never returns nil having left a nested archive unexpanded.
func TestK45UnzipCancelledWhileSniffingANestedArchive(t *testing.T) {
	fs := NewFs(InMemoryFS)
	tmp, err := fs.TempDirInTempDir("k45")
	require.NoError(t, err)
	defer func() { _ = fs.Rm(tmp) }()
	require.NoError(t, fs.MkDir(filepath.Join(tmp, "innersrc")))
	require.NoError(t, fs.WriteFile(filepath.Join(tmp, "innersrc", "f.txt"), []byte("content"), 0644))
	require.NoError(t, fs.MkDir(filepath.Join(tmp, "outersrc")))
	require.NoError(t, fs.Zip(filepath.Join(tmp, "innersrc"), filepath.Join(tmp, "outersrc", "inner.zip")))
	require.NoError(t, fs.Zip(filepath.Join(tmp, "outersrc"), filepath.Join(tmp, "outer.zip")))
	limits := NewLimits(1<<20, 1<<24, 1000, -1, true)

	swallowed := 0
	for n := 0; n < 200; n++ {
		dest := filepath.Join(tmp, "dest")
		_ = fs.Rm(dest)
		ctx := &k45CountingContext{Context: context.Background(), remaining: n, done: make(chan struct{})}
		_, err := fs.UnzipWithContextAndLimits(ctx, filepath.Join(tmp, "outer.zip"), dest, limits)
		ctx.mu.Lock()
		cancelled := ctx.cancelled
		ctx.mu.Unlock()
		if !cancelled {
			require.NoError(t, err)
			assert.True(t, fs.Exists(filepath.Join(dest, "inner", "f.txt")))
			break
		}
		if err == nil {
			swallowed++
			t.Errorf("context cancelled at its consultation #%v: the extraction returned nil (nested archive expanded: %v)", n, fs.Exists(filepath.Join(dest, "inner", "f.txt")))
			continue
		}
		assert.True(t, commonerrors.Any(err, commonerrors.ErrCancelled), "consultation #%v: %v", n, err)
	}
	assert.Zero(t, swallowed)
}
