package filesystem

import (
	"context"
	"os"
	"path/filepath"
	"sort"
	"testing"

	"github.com/stretchr/testify/assert"
	"github.com/stretchr/testify/require"
)

// What an extraction reports does not depend on the files which happen to lie in the working directory of the process.
func TestK28UnzipDoesNotLookAtTheWorkingDirectory(t *testing.T) {
	fs := NewStandardFileSystem()
	root := t.TempDir()
	// tree/inner.zip is a real archive of a folder with one file
	innerSrc := filepath.Join(root, "innersrc")
	require.NoError(t, fs.MkDir(innerSrc))
	require.NoError(t, fs.WriteFile(filepath.Join(innerSrc, "a.txt"), []byte("a"), 0600))
	tree := filepath.Join(root, "tree")
	require.NoError(t, fs.MkDir(tree))
	require.NoError(t, fs.Zip(innerSrc, filepath.Join(tree, "inner.zip")))
	require.NoError(t, fs.WriteFile(filepath.Join(tree, "b.txt"), []byte("b"), 0600))
	outer := filepath.Join(root, "outer.zip")
	require.NoError(t, fs.Zip(tree, outer))

	extract := func(dest string) []string {
		list, err := fs.UnzipWithContextAndLimits(context.Background(), outer, dest, DefaultLimits())
		require.NoError(t, err)
		var rel []string
		for _, p := range list {
			r, err := filepath.Rel(dest, p)
			require.NoError(t, err)
			rel = append(rel, r)
		}
		sort.Strings(rel)
		return rel
	}
	cwd, err := os.Getwd()
	require.NoError(t, err)
	defer func() { _ = os.Chdir(cwd) }()

	emptyDir := filepath.Join(root, "cwd-empty")
	require.NoError(t, fs.MkDir(emptyDir))
	require.NoError(t, os.Chdir(emptyDir))
	reference := extract(filepath.Join(root, "dest1"))

	// the same extraction from a working directory which holds a file named like the nested archive
	busyDir := filepath.Join(root, "cwd-busy")
	require.NoError(t, fs.MkDir(busyDir))
	require.NoError(t, fs.WriteFile(filepath.Join(busyDir, "inner.zip"), []byte("just some text, not an archive"), 0600))
	require.NoError(t, os.Chdir(busyDir))
	other := extract(filepath.Join(root, "dest2"))
	assert.Equal(t, reference, other, "the list of extracted files depends on the working directory")
	for _, r := range other {
		assert.True(t, fs.Exists(filepath.Join(root, "dest2", r)), "[%v] is reported but was not created", r)
	}
}
