package filesystem

import (
	"context"
	"path/filepath"
	"testing"

	"github.com/stretchr/testify/assert"
	"github.com/stretchr/testify/require"
)

// A file moved into the directory it already is in.
func TestK12MoveFileIntoItsOwnDirectory(t *testing.T) {
	for _, fsType := range []FilesystemType{StandardFS, InMemoryFS} {
		t.Run(fsType.String(), func(t *testing.T) {
			fs := NewFs(fsType)
			root, err := fs.TempDirInTempDir("k12-")
			require.NoError(t, err)
			defer func() { _ = fs.Rm(root) }()
			d := filepath.Join(root, "d")
			require.NoError(t, fs.MkDir(d))
			f := filepath.Join(d, "f")
			other := filepath.Join(d, "other")
			require.NoError(t, fs.WriteFile(f, []byte("precious content"), 0o644))
			require.NoError(t, fs.WriteFile(other, []byte("bystander"), 0o644))
			err = fs.Move(f, d)
			t.Logf("Move(d/f, d) returned %v", err)
			isDir, _ := fs.IsDir(d)
			assert.True(t, isDir, "the directory was replaced")
			got, rerr := fs.ReadFile(f)
			assert.NoError(t, rerr, "the file moved into its own directory is gone")
			assert.Equal(t, "precious content", string(got))
			got, rerr = fs.ReadFile(other)
			assert.NoError(t, rerr, "another file of the directory is gone")
			assert.Equal(t, "bystander", string(got))
		})
	}
}

func TestK12MoveBetweenFSFileIntoItsOwnDirectory(t *testing.T) {
	for _, fsType := range []FilesystemType{StandardFS, InMemoryFS} {
		t.Run(fsType.String(), func(t *testing.T) {
			fs := NewFs(fsType)
			root, err := fs.TempDirInTempDir("k12-")
			require.NoError(t, err)
			defer func() { _ = fs.Rm(root) }()
			d := filepath.Join(root, "d")
			require.NoError(t, fs.MkDir(d))
			f := filepath.Join(d, "f")
			require.NoError(t, fs.WriteFile(f, []byte("precious content"), 0o644))
			err = MoveBetweenFS(context.Background(), fs, f, fs, d)
			t.Logf("MoveBetweenFS(d/f, d) returned %v", err)
			got, rerr := fs.ReadFile(f)
			assert.NoError(t, rerr, "the file moved into its own directory is gone")
			assert.Equal(t, "precious content", string(got))
		})
	}
}
