package filesystem

import (
	"os"
	"testing"

	"github.com/stretchr/testify/require"

	"github.com/ARM-software/golang-utils/utils/commonerrors"
	"github.com/ARM-software/golang-utils/utils/commonerrors/errortest"
)

func TestF22ConverterDoesNotGoByThePath(t *testing.T) {
	for _, dir := range []string{"no such dir file exists", "i-o timeout i/o timeout", "bad file descriptor"} {
		_, err := os.Open("/tmp/" + dir + "/x")
		require.Error(t, err)
		errortest.AssertError(t, ConvertFileSystemError(err), commonerrors.ErrNotFound)
	}
}
