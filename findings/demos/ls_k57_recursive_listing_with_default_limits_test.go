package filesystem

import (
	"context"
	"path/filepath"
	"sort"
	"testing"

	"github.com/stretchr/testify/assert"
	"github.com/stretchr/testify/require"
)

// A negative maximum depth means that the depth is not limited (see ILimits): with the default limits a recursive listing lists the tree.
func TestK57RecursiveListingWithDefaultLimits(t *testing.T) {
	for _, fsType := range FileSystemTypes {
		fs := NewFs(fsType)
		tmp, err := fs.TempDirInTempDir("k57")
		require.NoError(t, err)
		require.NoError(t, fs.MkDir(filepath.Join(tmp, "a", "b")))
		require.NoError(t, fs.WriteFile(filepath.Join(tmp, "top.txt"), []byte("content"), 0644))
		require.NoError(t, fs.WriteFile(filepath.Join(tmp, "a", "b", "deep.txt"), []byte("content"), 0644))
		reference, err := fs.LsRecursive(context.Background(), tmp, true)
		require.NoError(t, err)
		require.NotEmpty(t, reference)
		for _, limits := range []ILimits{DefaultLimits(), DefaultZipLimits(), NoLimits()} {
			listed, err := fs.LsRecursiveWithExclusionPatternsAndLimits(context.Background(), tmp, limits, true)
			require.NoError(t, err)
			sort.Strings(listed)
			sort.Strings(reference)
			assert.Equal(t, reference, listed, "%v, limits applied: %v, maximum depth: %v", fsType, limits.Apply(), limits.GetMaxDepth())
		}
		_ = fs.Rm(tmp)
	}
}
