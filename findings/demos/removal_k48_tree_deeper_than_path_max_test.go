package filesystem

import (
	"os"
	"path/filepath"
	"strings"
	"testing"

	"github.com/stretchr/testify/assert"
	"github.com/stretchr/testify/require"
)

// A removal which reports success has removed the tree: when part of the tree cannot even be examined (its path is longer
// than the system allows) the removal fails rather than reporting success with the tree in place.
func TestK48RemovalOfATreeDeeperThanPathMax(t *testing.T) {
	fs := NewStandardFileSystem()
	tmp := t.TempDir()
	tree := filepath.Join(tmp, "tree")
	require.NoError(t, os.Mkdir(tree, 0755))
	cwd, err := os.Getwd()
	require.NoError(t, err)
	defer func() {
		_ = os.Chdir(cwd)
		_ = os.RemoveAll(tree)
	}()
	require.NoError(t, os.Chdir(tree))
	segment := strings.Repeat("d", 200)
	for i := 0; i < 25; i++ { // 25 x 201 characters: beyond PATH_MAX (4096)
		require.NoError(t, os.Mkdir(segment, 0755))
		require.NoError(t, os.Chdir(segment))
	}
	require.NoError(t, os.Chdir(cwd))

	err = fs.Rm(tree)
	_, statErr := os.Lstat(tree)
	if err == nil {
		assert.True(t, os.IsNotExist(statErr), "Rm reported success: the tree must be gone (Lstat: %v)", statErr)
	} else {
		t.Logf("Rm reported: %v", err)
	}
	err = fs.CleanDir(tree)
	entries, readErr := os.ReadDir(tree)
	if err == nil && readErr == nil {
		assert.Empty(t, entries, "CleanDir reported success: the directory must be empty")
	}
}
