package parallelisation

import (
	"errors"
	"reflect"
	"runtime"
	"sync"
	"testing"
	"time"

	"github.com/stretchr/testify/assert"
	"github.com/stretchr/testify/require"
)

// The action is invoked with the arguments of the list Parallelise was given: what the caller does with its slice once
// Parallelise has returned (with the error of one invocation) does not reach the invocations which had not started yet.
func TestK62ParalleliseArgumentsAreThoseOfTheCall(t *testing.T) {
	defer runtime.GOMAXPROCS(runtime.GOMAXPROCS(1))
	const n = 200
	args := make([]int, n)
	for i := range args {
		args[i] = i + 1
	}
	var mu sync.Mutex
	var seen []int
	failure := errors.New("failed")
	action := func(arg interface{}) (interface{}, error) {
		mu.Lock()
		seen = append(seen, arg.(int))
		mu.Unlock()
		return nil, failure
	}
	_, err := Parallelise(args, action, reflect.TypeOf([]int{}))
	require.ErrorIs(t, err, failure)
	// the caller reuses its slice
	for i := range args {
		args[i] = -1
	}
	require.Eventually(t, func() bool {
		mu.Lock()
		defer mu.Unlock()
		return len(seen) == n
	}, 5*time.Second, time.Millisecond)
	foreign := 0
	for _, v := range seen {
		if v < 1 || v > n {
			foreign++
		}
	}
	assert.Zero(t, foreign, "%v of %v invocations received a value which was never in the list handed to Parallelise", foreign, n)
}
