package parallelisation

import (
	"reflect"
	"testing"

	"github.com/stretchr/testify/assert"
	"github.com/stretchr/testify/require"
)

// An action may return nil: Parallelise returns all the results, nil ones included.
func TestK29ParalleliseWithNilResults(t *testing.T) {
	type item struct{ v int }
	args := []int{1, 2, 3, 4}
	var results interface{}
	var err error
	require.NotPanics(t, func() {
		results, err = Parallelise(args, func(arg interface{}) (interface{}, error) {
			if arg.(int)%2 == 0 {
				return nil, nil
			}
			return &item{v: arg.(int)}, nil
		}, reflect.TypeOf([]*item{}))
	})
	require.NoError(t, err)
	list, ok := results.([]*item)
	require.True(t, ok)
	assert.Len(t, list, len(args))
	nils := 0
	for _, r := range list {
		if r == nil {
			nils++
		}
	}
	assert.Equal(t, 2, nils)
}
