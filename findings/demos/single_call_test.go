package demo

// Demonstrations (run by hand, see README.md) of defects that need one call each:
//   C10  named float types bypass the float branch of the range guards
//   C04  recursive removal follows a link out of the tree and reports success with the tree still there
//   C19  a failing static paginator constructor returns (nil, nil)
//   C20  a failed calculation leaves its bytes in the hasher
//   C08  an invalid exclusion pattern is ignored by Remove and detected too late by Zip
//   C14  Retry-After seconds overflow into a negative wait
//   C09  CopyToDirectoryWithContext creates the directory under a context that is already done
//   C16  an Unlock deferred before the acquire removes the lock of the real holder

import (
	"bytes"
	"context"
	"errors"
	"fmt"
	"math"
	nethttp "net/http"
	"os"
	"path/filepath"
	"testing"
	"time"

	"github.com/ARM-software/golang-utils/utils/collection/pagination"
	"github.com/ARM-software/golang-utils/utils/commonerrors"
	"github.com/ARM-software/golang-utils/utils/filesystem"
	"github.com/ARM-software/golang-utils/utils/hashing"
	httputils "github.com/ARM-software/golang-utils/utils/http"
	"github.com/ARM-software/golang-utils/utils/safecast"
)

type MyF float64
type MyF32 float32

func TestC10NamedFloat(t *testing.T) {
	fmt.Println("ToUint64(MyF(+Inf))  =", safecast.ToUint64(MyF(math.Inf(1))), "want", uint64(math.MaxUint64))
	fmt.Println("ToUint64(MyF(1e300)) =", safecast.ToUint64(MyF(1e300)), "want", uint64(math.MaxUint64))
	fmt.Println("ToUint64(float64(+Inf)) =", safecast.ToUint64(math.Inf(1)))
}

func TestC04RmSymlink(t *testing.T) {
	root := t.TempDir()
	outside := filepath.Join(root, "outside")
	tree := filepath.Join(root, "tree")
	_ = os.MkdirAll(outside, 0o755)
	_ = os.MkdirAll(tree, 0o755)
	_ = os.WriteFile(filepath.Join(outside, "precious.txt"), []byte("x"), 0o644)
	_ = os.Symlink(outside, filepath.Join(tree, "link"))
	_ = os.Symlink(filepath.Join(root, "nowhere"), filepath.Join(tree, "dangling"))
	err := filesystem.NewStandardFileSystem().Rm(tree)
	_, e1 := os.Stat(filepath.Join(outside, "precious.txt"))
	_, e2 := os.Lstat(tree)
	fmt.Println("Rm err:", err, "| precious still exists:", e1 == nil, "| tree gone:", e2 != nil)
}

type badPage struct{}

func (badPage) HasNext() bool                                  { return false }
func (badPage) GetItemIterator() (pagination.IIterator, error) { return nil, errors.New("boom") }
func (badPage) GetItemCount() (int64, error)                   { return 0, nil }

func TestC19PaginatorCtorErr(t *testing.T) {
	p, err := pagination.NewStaticPagePaginator(context.Background(), func(context.Context) (pagination.IStaticPage, error) { return badPage{}, nil }, nil)
	fmt.Println("static paginator:", p, "err:", err)
}

type errReader struct {
	data []byte
	k    int
}

func (r *errReader) Read(p []byte) (int, error) {
	if r.k <= 0 {
		return 0, errors.New("io failure")
	}
	n := copy(p, r.data[:r.k])
	r.k -= n
	r.data = r.data[n:]
	return n, nil
}

func TestC20HashHistory(t *testing.T) {
	h, _ := hashing.NewHashingAlgorithm(hashing.HashSha256)
	_, err := h.Calculate(&errReader{data: []byte("garbage-garbage"), k: 7})
	fmt.Println("first (failed) err:", err)
	got, _ := h.Calculate(bytes.NewReader([]byte("hello")))
	h2, _ := hashing.NewHashingAlgorithm(hashing.HashSha256)
	want, _ := h2.Calculate(bytes.NewReader([]byte("hello")))
	fmt.Println("after failure same digest as fresh hasher:", got == want)
}

func TestC08ExclusionInvalid(t *testing.T) {
	fs := filesystem.NewStandardFileSystem()
	d := filepath.Join(t.TempDir(), "empty")
	_ = os.MkdirAll(d, 0o755)
	err := fs.RemoveWithContextAndExclusionPatterns(context.Background(), d, "([")
	_, e := os.Stat(d)
	fmt.Println("remove invalid pattern err:", err, "| dir still exists:", e == nil)
	src := t.TempDir()
	_ = os.WriteFile(filepath.Join(src, "a"), []byte("x"), 0o644)
	dst := filepath.Join(t.TempDir(), "o.zip")
	err = fs.ZipWithContextAndLimitsAndExclusionPatterns(context.Background(), src, dst, filesystem.NoLimits(), "([")
	_, e = os.Stat(dst)
	fmt.Println("zip invalid pattern err:", err, "| archive created:", e == nil)
}

func TestC14RetryAfterOverflow(t *testing.T) {
	p := httputils.NewBasicRetryPolicy(&httputils.RetryPolicyConfiguration{RetryAfterDisabled: false})
	resp := &nethttp.Response{StatusCode: 429, Header: nethttp.Header{"Retry-After": []string{"9223372036854775807"}}}
	fmt.Println("wait:", p.Apply(time.Second, time.Minute, 1, resp))
	resp = &nethttp.Response{StatusCode: 429, Header: nethttp.Header{"Retry-After": []string{"9223372037"}}}
	fmt.Println("wait:", p.Apply(time.Second, time.Minute, 1, resp))
}

func TestC09CtxCopyToDir(t *testing.T) {
	fs := filesystem.NewStandardFileSystem()
	root := t.TempDir()
	_ = os.WriteFile(filepath.Join(root, "a"), []byte("x"), 0o644)
	ctx, cancel := context.WithCancel(context.Background())
	cancel()
	err := fs.CopyToDirectoryWithContext(ctx, filepath.Join(root, "a"), filepath.Join(root, "newdir"))
	_, e := os.Stat(filepath.Join(root, "newdir"))
	fmt.Println("copy-to-dir cancelled err:", err, "| newdir created:", e == nil)
	err = fs.RemoveWithContext(ctx, filepath.Join(root, "missing"))
	fmt.Println("remove missing w/ cancelled ctx err:", err, commonerrors.Any(err, commonerrors.ErrCancelled))
}

func TestC16LockDeferUnlock(t *testing.T) {
	fs := filesystem.NewStandardFileSystem().(*filesystem.VFS)
	dir := t.TempDir()
	a := filesystem.NewRemoteLockFile(fs, "k", dir)
	b := filesystem.NewRemoteLockFile(fs, "k", dir)
	ctx := context.Background()
	fmt.Println("A lock:", a.TryLock(ctx))
	// what sharedcache's mutable Fetch/Store do: the Unlock is deferred before LockWithTimeout
	func() {
		defer func() { _ = b.Unlock(ctx) }()
		err := b.LockWithTimeout(ctx, 100*time.Millisecond)
		fmt.Println("B LockWithTimeout:", err)
	}()
	c := filesystem.NewRemoteLockFile(fs, "k", dir)
	fmt.Println("C TryLock while A still holds:", c.TryLock(ctx))
}
