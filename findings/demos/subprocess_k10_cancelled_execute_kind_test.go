package demo

import (
	"context"
	"testing"
	"time"

	"github.com/ARM-software/golang-utils/utils/commonerrors"
	"github.com/ARM-software/golang-utils/utils/logs"
	"github.com/ARM-software/golang-utils/utils/subprocess"
)

func TestK10CancelledExecuteReportsAContextKind(t *testing.T) {
	for _, mode := range []string{"cancel", "deadline"} {
		t.Run(mode, func(t *testing.T) {
			l, _ := logs.NewPlainStringLogger()
			var ctx context.Context
			var cancel context.CancelFunc
			if mode == "cancel" {
				ctx, cancel = context.WithCancel(context.Background())
				go func() { time.Sleep(300 * time.Millisecond); cancel() }()
			} else {
				ctx, cancel = context.WithTimeout(context.Background(), 300*time.Millisecond)
			}
			defer cancel()
			p, err := subprocess.New(ctx, l, "start", "ok", "ko", "sleep", "3")
			if err != nil {
				t.Fatal(err)
			}
			err = p.Execute()
			t.Logf("Execute returned: %v", err)
			if !commonerrors.Any(err, commonerrors.ErrCancelled, commonerrors.ErrTimeout) {
				t.Errorf("a cancelled Execute must return an error of context kind, got: %v", err)
			}
		})
	}
}
