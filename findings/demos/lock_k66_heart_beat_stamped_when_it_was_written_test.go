package filesystem

import (
	"context"
	"os"
	"strings"
	"sync"
	"sync/atomic"
	"testing"
	"time"

	"github.com/spf13/afero"
	"github.com/stretchr/testify/assert"
	"github.com/stretchr/testify/require"
)

// k66StallingFs is the filesystem of the operating system on which one opening of the heart beat file (the fourth) takes a while.
type k66StallingFs struct {
	afero.Fs
	stall     time.Duration
	opens     atomic.Int32
	mu        sync.Mutex
	completed time.Time
}

func (s *k66StallingFs) OpenFile(name string, flag int, perm os.FileMode) (afero.File, error) {
	stalled := false
	if strings.HasSuffix(name, ".lock") && flag&os.O_CREATE != 0 && s.opens.Add(1) == 4 {
		time.Sleep(s.stall)
		stalled = true
	}
	f, err := s.Fs.OpenFile(name, flag, perm)
	if stalled {
		s.mu.Lock()
		s.completed = time.Now()
		s.mu.Unlock()
	}
	return f, err
}

// A lock is reported stale only if its holder has written no heart beat for more than two periods. A heart beat whose write
// was slow is a heart beat written when the write ended: from then on the lock is not stale for two periods.
func TestK66HeartBeatStampedWhenItWasWritten(t *testing.T) {
	osFs := NewFs(StandardFS)
	dirToLock, err := osFs.TempDirInTempDir("k66")
	require.NoError(t, err)
	defer func() { _ = osFs.Rm(dirToLock) }()
	stalling := &k66StallingFs{Fs: NewExtendedOsFs(), stall: 80 * time.Millisecond}
	holder := NewVirtualFileSystem(stalling, StandardFS, IdentityPathConverterFunc).NewRemoteLockFile("lock", dirToLock)
	ctx := context.Background()
	require.NoError(t, holder.TryLock(ctx))
	defer func() { _ = holder.Unlock(ctx) }()
	observer := osFs.NewRemoteLockFile("lock", dirToLock)
	var written time.Time
	require.Eventually(t, func() bool {
		stalling.mu.Lock()
		defer stalling.mu.Unlock()
		written = stalling.completed
		return !written.IsZero()
	}, 2*time.Second, time.Millisecond)
	// the slow heart beat has just been written: for the next 90 ms (less than two periods) the lock is alive
	staleAfter := time.Duration(0)
	for time.Since(written) < 90*time.Millisecond {
		if observer.IsStale() {
			staleAfter = time.Since(written)
			break
		}
		time.Sleep(time.Millisecond)
	}
	assert.Zero(t, staleAfter, "the lock of a live holder was reported stale %v after a heart beat was written (the period is 50ms)", staleAfter)
}
