package sharedcache

import (
	"context"
	"path/filepath"
	"testing"
	"time"

	"github.com/stretchr/testify/assert"
	"github.com/stretchr/testify/require"

	"github.com/ARM-software/golang-utils/utils/filesystem"
)

// The marker of an upload in progress (`.part`) also occurs in the middle of perfectly valid keys and storage paths.
func TestK14ImmutableStoreWhenThePathContainsThePartMarker(t *testing.T) {
	for _, c := range []struct{ name, remoteSuffix, key string }{
		{"key", "remote", "release.partial-1"},
		{"storage path", "cache.partition", "key"},
	} {
		t.Run(c.name, func(t *testing.T) {
			fs := filesystem.NewFs(filesystem.StandardFS)
			root, err := fs.TempDirInTempDir("k14-")
			require.NoError(t, err)
			defer func() { _ = fs.Rm(root) }()
			remote := filepath.Join(root, c.remoteSuffix)
			require.NoError(t, fs.MkDir(remote))
			src := filepath.Join(root, "src")
			require.NoError(t, fs.MkDir(src))
			require.NoError(t, fs.WriteFile(filepath.Join(src, "a.txt"), []byte("version 1"), 0o644))
			dest := filepath.Join(root, "dest")
			require.NoError(t, fs.MkDir(dest))
			cache, err := NewCache(CacheImmutable, fs, &Configuration{RemoteStoragePath: remote, Timeout: time.Second})
			require.NoError(t, err)
			require.NoError(t, cache.Store(context.Background(), c.key, src), "Store")
			err = cache.Fetch(context.Background(), c.key, dest)
			assert.NoError(t, err, "a Fetch following a successful Store must return the version stored")
			got, _ := fs.ReadFile(filepath.Join(dest, "a.txt"))
			assert.Equal(t, "version 1", string(got))
		})
	}
}
