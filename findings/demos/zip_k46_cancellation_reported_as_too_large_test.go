package filesystem

import (
	"context"
	"fmt"
	"math/rand"
	"path/filepath"
	"testing"

	"github.com/stretchr/testify/assert"
	"github.com/stretchr/testify/require"

	"github.com/ARM-software/golang-utils/utils/commonerrors"
)

// When the context ends whilst a tree is being zipped, the call reports it — whatever the size the partial archive has reached.
func TestK46ZipCancelledIsReportedAsSuch(t *testing.T) {
	fs := NewFs(InMemoryFS)
	tmp, err := fs.TempDirInTempDir("k46")
	require.NoError(t, err)
	defer func() { _ = fs.Rm(tmp) }()
	random := rand.New(rand.NewSource(46)) //nolint:gosec
	for i := 0; i < 8; i++ {
		content := make([]byte, 3000) // incompressible: the archive outgrows the limit after two files
		_, _ = random.Read(content)
		require.NoError(t, fs.WriteFile(filepath.Join(tmp, "src", fmt.Sprintf("f%v.bin", i)), content, 0644))
	}
	limits := NewLimits(5000, 1<<24, 1000, -1, false)
	misreported := 0
	for n := 0; n < 400; n++ {
		ctx := &k45CountingContext{Context: context.Background(), remaining: n, done: make(chan struct{})}
		err := fs.ZipWithContextAndLimits(ctx, filepath.Join(tmp, "src"), filepath.Join(tmp, "archive.zip"), limits)
		ctx.mu.Lock()
		cancelled := ctx.cancelled
		ctx.mu.Unlock()
		if !cancelled {
			assert.True(t, commonerrors.Any(err, commonerrors.ErrTooLarge), "%v", err)
			break
		}
		require.Error(t, err)
		if !commonerrors.Any(err, commonerrors.ErrCancelled) {
			misreported++
			if misreported < 4 {
				t.Errorf("context cancelled at its consultation #%v: %v", n, err)
			}
		}
	}
	assert.Zero(t, misreported)
}
