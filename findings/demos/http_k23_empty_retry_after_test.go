package http

import (
	"net/http"
	"testing"
	"time"

	"github.com/stretchr/testify/assert"

	"github.com/go-http-utils/headers"
)

// A Retry-After header without any value is no hint: the computed wait applies (and nothing panics).
func TestK23EmptyRetryAfterHeader(t *testing.T) {
	resp := &http.Response{StatusCode: http.StatusTooManyRequests, Header: http.Header{headers.RetryAfter: []string{}}}
	assert.NotPanics(t, func() {
		wait, found := findRetryAfter(resp)
		assert.False(t, found)
		assert.Equal(t, time.Duration(0), wait)
	})
}
