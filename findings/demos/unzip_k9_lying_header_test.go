package filesystem

import (
	"archive/zip"
	"bytes"
	"context"
	"hash/crc32"
	"path/filepath"
	"testing"

	"github.com/stretchr/testify/assert"
	"github.com/stretchr/testify/require"
)

func k9Archive(t *testing.T, declared uint64, data []byte, crc uint32) []byte {
	var buf bytes.Buffer
	w := zip.NewWriter(&buf)
	fw, err := w.CreateRaw(&zip.FileHeader{Name: "f.txt", Method: zip.Store, UncompressedSize64: declared, CompressedSize64: uint64(len(data)), CRC32: crc})
	require.NoError(t, err)
	_, err = fw.Write(data)
	require.NoError(t, err)
	require.NoError(t, w.Close())
	return buf.Bytes()
}

func TestK9LyingHeaders(t *testing.T) {
	data := []byte("0123456789")
	for _, c := range []struct {
		name     string
		declared uint64
		crc      uint32
	}{
		{"header declares fewer bytes than the data holds", 5, crc32.ChecksumIEEE(data)},
		{"header declares fewer bytes, checksum of the declared prefix", 5, crc32.ChecksumIEEE(data[:5])},
		{"sizes agree but the checksum does not match the data", 10, 0xdeadbeef},
	} {
		for _, fsType := range []FilesystemType{StandardFS, InMemoryFS} {
			t.Run(c.name+"/"+fsType.String(), func(t *testing.T) {
				fs := NewFs(fsType)
				root, err := fs.TempDirInTempDir("k9-")
				require.NoError(t, err)
				defer func() { _ = fs.Rm(root) }()
				src := filepath.Join(root, "a.zip")
				require.NoError(t, fs.WriteFile(src, k9Archive(t, c.declared, data, c.crc), 0o644))
				dest := filepath.Join(root, "dest")
				_, err = fs.UnzipWithContextAndLimits(context.Background(), src, dest, DefaultLimits())
				got, _ := fs.ReadFile(filepath.Join(dest, "f.txt"))
				t.Logf("err=%v extracted=%q", err, string(got))
				assert.Error(t, err, "an archive whose header contradicts its data must be refused with an error")
			})
		}
	}
}
