package filesystem

import (
	"os"
	"path/filepath"
	"strings"
	"testing"

	"github.com/stretchr/testify/assert"
	"github.com/stretchr/testify/require"
)

// A directory which cannot be examined (its path is longer than the system allows) is not a directory which is not there:
// CleanDir does not report success with the content in place, and IsEmpty does not answer 'empty'.
func TestK59CleanDirOfADirectoryWhichCannotBeExamined(t *testing.T) {
	fs := NewStandardFileSystem()
	tmp := t.TempDir()
	tree := filepath.Join(tmp, "tree")
	require.NoError(t, os.Mkdir(tree, 0755))
	cwd, err := os.Getwd()
	require.NoError(t, err)
	defer func() {
		_ = os.Chdir(cwd)
		_ = os.RemoveAll(tree)
	}()
	require.NoError(t, os.Chdir(tree))
	segment := strings.Repeat("d", 200)
	deep := tree
	for i := 0; i < 25; i++ { // 25 x 201 characters: beyond PATH_MAX (4096)
		require.NoError(t, os.Mkdir(segment, 0755))
		require.NoError(t, os.Chdir(segment))
		deep = filepath.Join(deep, segment)
	}
	require.NoError(t, os.WriteFile("content.txt", []byte("content"), 0600))
	here, err := os.Open(".")
	require.NoError(t, err)
	defer func() { _ = here.Close() }()
	require.NoError(t, os.Chdir(cwd))

	err = fs.CleanDir(deep)
	names, readErr := here.Readdirnames(-1)
	require.NoError(t, readErr)
	if err == nil {
		assert.Empty(t, names, "CleanDir reported success: the directory must be empty")
	} else {
		t.Logf("CleanDir reported an error ending in: %v", tail(err))
	}
	empty, err := fs.IsEmpty(deep)
	if err == nil {
		assert.False(t, empty, "IsEmpty answered without an error: the directory holds %v", names)
	} else {
		t.Logf("IsEmpty reported an error ending in: %v", tail(err))
	}
}

func tail(err error) string {
	text := err.Error()
	if len(text) > 60 {
		text = text[len(text)-60:]
	}
	return text
}
