package demo

import (
	"context"
	"fmt"
	"os"
	"path/filepath"
	"sync/atomic"
	"testing"
	"time"

	"github.com/spf13/afero"

	"github.com/ARM-software/golang-utils/utils/filesystem"
)

type hookFs struct {
	afero.Fs
	hook func(name string)
}

func (h *hookFs) Stat(name string) (os.FileInfo, error) {
	if h.hook != nil {
		h.hook(name)
	}
	return h.Fs.Stat(name)
}

func TestK1UnlockDestroysSuccessor(t *testing.T) {
	dir := t.TempDir()
	hf := &hookFs{Fs: filesystem.NewExtendedOsFs()}
	vfs := filesystem.NewVirtualFileSystem(hf, filesystem.StandardFS, filesystem.IdentityPathConverterFunc).(*filesystem.VFS)
	ctx := context.Background()
	a := filesystem.NewRemoteLockFile(vfs, "k", dir)
	b := filesystem.NewRemoteLockFile(vfs, "k", dir)
	lockPath := filepath.Join(dir, "lockfile-k")
	fmt.Println("A acquire:", a.TryLock(ctx))
	var fired atomic.Bool
	var bErr error
	hf.hook = func(name string) {
		if name == lockPath && !fired.Load() {
			if _, err := os.Stat(lockPath); err != nil { // A's removal has happened
				fired.Store(true)
				bErr = b.TryLock(ctx)
			}
		}
	}
	fmt.Println("A unlock:", a.Unlock(ctx))
	hf.hook = nil
	fmt.Println("B acquire (between A's removal and A's re-check):", bErr)
	_, err := os.Stat(lockPath)
	fmt.Println("B's lock directory still exists after A.Unlock returned:", err == nil)
	c := filesystem.NewRemoteLockFile(vfs, "k", dir)
	fmt.Println("C acquire while B holds:", c.TryLock(ctx))
}

func TestK2StaleTakeoverByTwo(t *testing.T) {
	dir := t.TempDir()
	hf := &hookFs{Fs: filesystem.NewExtendedOsFs()}
	vfs := filesystem.NewVirtualFileSystem(hf, filesystem.StandardFS, filesystem.IdentityPathConverterFunc).(*filesystem.VFS)
	ctx := context.Background()
	dead := filesystem.NewRemoteLockFile(vfs, "k", dir)
	_ = dead.TryLock(ctx)
	_ = dead.MakeStale(ctx) // holder died
	time.Sleep(120 * time.Millisecond)
	x := filesystem.NewGenericRemoteLockFile(vfs, "k", dir, true)
	y := filesystem.NewGenericRemoteLockFile(vfs, "k", dir, true)
	lockPath := filepath.Join(dir, "lockfile-k")
	// Y: judged stale; before Y's Unlock touches the FS, X completes its whole takeover.
	fmt.Println("Y sees stale:", y.IsStale())
	var fired atomic.Bool
	var xErr error
	hf.hook = func(name string) {
		if name == lockPath && !fired.Load() {
			fired.Store(true)
			xErr = x.TryLock(ctx) // X: stale -> release -> acquire
		}
	}
	yRel := y.Unlock(ctx) // second half of Y.ReleaseIfStale after its IsStale() returned true
	hf.hook = nil
	yErr := y.TryLock(ctx)
	fmt.Println("X takeover:", xErr, "| Y release:", yRel, "| Y acquire:", yErr, "=> both hold:", xErr == nil && yErr == nil)
}
