package filesystem

import (
	"archive/zip"
	"bytes"
	"context"
	"fmt"
	"os"
	"path/filepath"
	"testing"
	"time"

	"github.com/stretchr/testify/assert"
	"github.com/stretchr/testify/require"
)

func TestK10DirectoriesNamedLikeArchivesEscapeTheFileCount(t *testing.T) {
	var buf bytes.Buffer
	w := zip.NewWriter(&buf)
	for i := 0; i < 50; i++ {
		h := &zip.FileHeader{Name: fmt.Sprintf("d%02d.zip", i), Method: zip.Store}
		h.SetMode(os.ModeDir | 0o755)
		_, err := w.CreateHeader(h)
		require.NoError(t, err)
	}
	require.NoError(t, w.Close())
	for _, recursive := range []bool{true, false} {
		for _, fsType := range []FilesystemType{StandardFS, InMemoryFS} {
			t.Run(fmt.Sprintf("recursive=%v/%v", recursive, fsType), func(t *testing.T) {
				fs := NewFs(fsType)
				root, err := fs.TempDirInTempDir("k10-")
				require.NoError(t, err)
				defer func() { _ = fs.Rm(root) }()
				src := filepath.Join(root, "a.zip")
				require.NoError(t, fs.WriteFile(src, buf.Bytes(), 0o644))
				dest := filepath.Join(root, "dest")
				limits := NewLimits(1<<20, 1<<20, 3, 10, recursive)
				list, err := fs.UnzipWithContextAndLimits(context.Background(), src, dest, limits)
				entries, _ := fs.Ls(dest)
				t.Logf("err=%v, %d entries on disk, %d listed", err, len(entries), len(list))
				if err == nil {
					assert.LessOrEqual(t, len(entries), 3, "success although more entries than the file-count limit were created")
				}
			})
		}
	}
	_ = time.Now
}
