package filesystem

import (
	"path/filepath"
	"testing"

	"github.com/stretchr/testify/assert"
	"github.com/stretchr/testify/require"
)

// The path handed to the removal is a symbolic link written with a trailing separator.
func TestF24RemovalOfLinkWithTrailingSeparator(t *testing.T) {
	fs := NewFs(StandardFS)
	root, err := fs.TempDirInTempDir("f24-")
	require.NoError(t, err)
	defer func() { _ = fs.Rm(root) }()
	outside := filepath.Join(root, "outside")
	require.NoError(t, fs.MkDir(outside))
	precious := filepath.Join(outside, "precious.txt")
	require.NoError(t, fs.WriteFile(precious, []byte("keep me"), 0o644))
	tree := filepath.Join(root, "tree")
	require.NoError(t, fs.MkDir(tree))
	link := filepath.Join(tree, "link")
	require.NoError(t, fs.Symlink(outside, link))

	err = fs.Rm(link + string(filepath.Separator))
	t.Logf("Rm(link/) returned %v", err)
	assert.True(t, fs.Exists(precious), "what lies behind the link — outside the tree — was deleted")
}
