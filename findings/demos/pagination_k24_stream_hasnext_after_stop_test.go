package pagination

import (
	"context"
	"testing"
	"time"

	"github.com/stretchr/testify/require"
)

type k24EndlessPage struct{}

func (k24EndlessPage) HasNext() bool                      { return false }
func (k24EndlessPage) GetItemIterator() (IIterator, error) { return NewMockPageIterator(GenerateEmptyPage().(*MockPage)) }
func (k24EndlessPage) GetItemCount() (int64, error)       { return 0, nil }
func (k24EndlessPage) HasFuture() bool                    { return true }

// Once a stream paginator has been stopped, HasNext answers (false) instead of polling an endless stream for ever.
func TestK24StreamHasNextReturnsAfterStop(t *testing.T) {
	paginator, err := NewStaticPageStreamPaginator(context.Background(), time.Hour, time.Millisecond,
		func(context.Context) (IStaticPageStream, error) { return k24EndlessPage{}, nil },
		func(context.Context, IStaticPage) (IStaticPage, error) { return k24EndlessPage{}, nil },
		func(context.Context, IStaticPageStream) (IStaticPageStream, error) { return k24EndlessPage{}, nil }) // does not look at the context
	require.NoError(t, err)
	paginator.Stop()()
	answered := make(chan bool, 1)
	go func() { answered <- paginator.HasNext() }()
	select {
	case answer := <-answered:
		require.False(t, answer)
	case <-time.After(2 * time.Second):
		t.Fatal("HasNext is still polling 2s after Stop()")
	}
}
