package config

import (
	"os"
	"testing"

	"github.com/spf13/pflag"
	"github.com/spf13/viper"
	"github.com/stretchr/testify/assert"
	"github.com/stretchr/testify/require"
)

type k55Configuration struct {
	Name string `mapstructure:"name"`
}

func (c *k55Configuration) Validate() error { return nil }

// A flag bound to a variable by the name the library reports for it is honoured when it is set, also when the prefix contains the key separator.
func TestK55FlagBoundByReportedNameWithDottedPrefix(t *testing.T) {
	os.Clearenv()
	for _, prefix := range []string{"test", "my.app"} {
		defaults := &k55Configuration{Name: "from the defaults"}
		names, err := DetermineConfigurationEnvironmentVariables(prefix, defaults)
		require.NoError(t, err)
		require.Len(t, names, 1)
		reported := ""
		for name := range names {
			reported = name
		}
		session := viper.New()
		flagSet := pflag.FlagSet{}
		flagSet.String("text", "flag default", "dummy text")
		require.NoError(t, BindFlagToEnv(session, prefix, reported, flagSet.Lookup("text")))
		require.NoError(t, flagSet.Set("text", "from the flag"))
		loaded := &k55Configuration{}
		require.NoError(t, LoadFromViper(session, prefix, loaded, defaults))
		assert.Equal(t, "from the flag", loaded.Name, "prefix %q, flag bound to %v", prefix, reported)
	}
}
