package http

import (
	"testing"
	"time"

	"github.com/stretchr/testify/assert"
)

// The wait of the linear policy is never negative (nor wrapped around), whatever the attempt number.
func TestK41LinearBackoffNeverNegative(t *testing.T) {
	policy := NewLinearBackoffPolicy(&RetryPolicyConfiguration{Enabled: true, BackOffEnabled: true, LinearBackOffEnabled: true})
	for _, n := range []int{0, 1, 7, 2562046, 2562047, 3000000, 4194304, 1 << 40} {
		wait := policy.Apply(time.Hour, time.Hour, n, nil)
		assert.GreaterOrEqual(t, wait, time.Duration(0), "attempt %v", n)
		if n < 2562047 {
			assert.Equal(t, time.Duration(n+1)*time.Hour, wait, "attempt %v", n)
		} else {
			assert.GreaterOrEqual(t, wait, 2562047*time.Hour, "attempt %v", n)
		}
	}
	// different bounds
	for _, n := range []int{5124094, 1 << 30} {
		wait := policy.Apply(time.Minute, 30*time.Minute, n, nil)
		assert.GreaterOrEqual(t, wait, time.Duration(n)*time.Minute, "attempt %v", n)
	}
}
