package pagination

import (
	"context"
	"testing"
	"time"

	"github.com/stretchr/testify/assert"
	"github.com/stretchr/testify/require"
)

// The grace period runs from the moment the stream is marked as running dry: items of future pages which are there at
// that moment are still yielded, however long the consumer had been idle before.
func TestK56GracePeriodCountsFromDryUp(t *testing.T) {
	pages := make([]*MockPage, 2)
	for i, n := range []int{2, 3} {
		pages[i] = GenerateEmptyPage().(*MockPage)
		for j := 0; j < n; j++ {
			require.NoError(t, pages[i].AppendItem(GenerateMockItem()))
		}
	}
	require.NoError(t, pages[0].SetFuture(pages[1]))
	pages[0].SetIndexes(0)
	paginator, err := NewStreamPaginator(context.Background(), 200*time.Millisecond, time.Millisecond, func(context.Context) (IStream, error) {
		return pages[0], nil
	})
	require.NoError(t, err)
	defer func() { _ = paginator.Close() }()
	for i := 0; i < 2; i++ {
		require.True(t, paginator.HasNext())
		_, err = paginator.GetNext()
		require.NoError(t, err)
	}
	time.Sleep(400 * time.Millisecond) // the consumer is busy elsewhere for longer than the grace period
	require.NoError(t, paginator.DryUp())
	start := time.Now()
	more := paginator.HasNext()
	assert.True(t, more, "HasNext() answered false %v after DryUp(): the future page (3 items) was never looked at", time.Since(start))
	count := 0
	for more {
		_, err = paginator.GetNext()
		require.NoError(t, err)
		count++
		more = paginator.HasNext()
	}
	assert.Equal(t, 3, count)
}
