package filesystem

import (
	"os"
	"path/filepath"
	"testing"

	"github.com/stretchr/testify/assert"
	"github.com/stretchr/testify/require"

	"github.com/ARM-software/golang-utils/utils/commonerrors"
)

// The kind a backend condition is converted to does not depend on the path.
func TestK20MissingFileUnderADirectoryNamedNotSupported(t *testing.T) {
	dir := t.TempDir()
	for _, name := range []string{"plain", "not supported", "operation not supported here"} {
		sub := filepath.Join(dir, name)
		require.NoError(t, os.MkdirAll(sub, 0700))
		_, err := os.Open(filepath.Join(sub, "missing"))
		require.Error(t, err)
		converted := ConvertFileSystemError(err)
		assert.Truef(t, commonerrors.Any(converted, commonerrors.ErrNotFound), "[%v] missing file converted to %v", name, converted)
		assert.Falsef(t, commonerrors.Any(converted, commonerrors.ErrUnsupported), "[%v] missing file converted to %v", name, converted)
		_, err = NewStandardFileSystem().ReadFile(filepath.Join(sub, "missing"))
		assert.Truef(t, commonerrors.Any(err, commonerrors.ErrNotFound), "[%v] ReadFile of a missing file: %v", name, err)
		assert.Falsef(t, commonerrors.Any(err, commonerrors.ErrUnsupported), "[%v] ReadFile of a missing file: %v", name, err)
	}
}
