package filesystem

import (
	"path/filepath"
	"testing"

	"github.com/stretchr/testify/assert"
	"github.com/stretchr/testify/require"

	"github.com/ARM-software/golang-utils/utils/commonerrors"
)

// A copy never changes its source, also when source and destination overlap: a directory copied into a (missing) directory of itself is refused
// without that directory being created.
func TestK58CopyDirectoryIntoANewDirectoryOfItself(t *testing.T) {
	for _, fsType := range FileSystemTypes {
		fs := NewFs(fsType)
		tmp, err := fs.TempDirInTempDir("k58")
		require.NoError(t, err)
		d := filepath.Join(tmp, "d")
		require.NoError(t, fs.MkDir(filepath.Join(d, "sub")))
		require.NoError(t, fs.WriteFile(filepath.Join(d, "f.txt"), []byte("content"), 0644))
		before, err := fs.LsRecursive(t.Context(), d, true)
		require.NoError(t, err)
		err = fs.Copy(d, filepath.Join(d, "new"))
		assert.True(t, commonerrors.Any(err, commonerrors.ErrInvalid), "%v", err)
		after, err := fs.LsRecursive(t.Context(), d, true)
		require.NoError(t, err)
		assert.ElementsMatch(t, before, after, "the source was changed by a copy which was refused (%v)", fsType)
		// a copy that is possible still creates what is missing
		require.NoError(t, fs.Copy(d, filepath.Join(tmp, "elsewhere", "copy")))
		assert.True(t, fs.Exists(filepath.Join(tmp, "elsewhere", "copy", "sub")))
		require.NoError(t, fs.Copy(filepath.Join(d, "f.txt"), filepath.Join(tmp, "newdir")+string(fs.PathSeparator())))
		assert.True(t, fs.Exists(filepath.Join(tmp, "newdir", "f.txt")))
		_ = fs.Rm(tmp)
	}
}
