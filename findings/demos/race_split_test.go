package demo

// Demonstrations for:
//   C13  StringWriter.Write mutates the shared builder under a read lock: messages are lost (and -race reports)
//   C18  the stream-to-logger adapter splits every chunk on its own: one long line arrives as several messages

import (
	"context"
	"fmt"
	"strings"
	"sync"
	"testing"

	"github.com/ARM-software/golang-utils/utils/logs"
	"github.com/ARM-software/golang-utils/utils/subprocess"
)

func TestC13StringLoggerRace(t *testing.T) {
	l, _ := logs.NewPlainStringLogger()
	var wg sync.WaitGroup
	for g := 0; g < 8; g++ {
		wg.Add(1)
		go func(g int) {
			defer wg.Done()
			for i := 0; i < 2000; i++ {
				if g%2 == 0 {
					l.Log(fmt.Sprintf("o-%d-%d", g, i))
				} else {
					l.LogError(fmt.Sprintf("e-%d-%d", g, i))
				}
			}
		}(g)
	}
	wg.Wait()
	lines := strings.Split(strings.TrimSpace(l.GetLogContent()), "\n")
	fmt.Println("lines delivered:", len(lines), "of", 16000)
}

func TestC18LongLine(t *testing.T) {
	l, _ := logs.NewPlainStringLogger()
	out, err := subprocess.Output(context.Background(), l, "sh", "-c", "head -c 200000 /dev/zero | tr '\\0' 'a'; echo")
	lines := strings.Split(strings.TrimSpace(out), "\n")
	fmt.Println("err", err, "child wrote 1 line of 200000 bytes; logger received", len(lines), "messages; first len", len(lines[0]))
}
