package config

import (
	"os"
	"path/filepath"
	"testing"

	"github.com/spf13/pflag"
	"github.com/spf13/viper"
	"github.com/stretchr/testify/assert"
	"github.com/stretchr/testify/require"
)

// Priority: explicitly set flag > environment variable > configuration file > defaults. The default value of a flag which
// has not been set is a default.
func TestK15ConfigurationFileBeatsTheDefaultValueOfAnUnsetFlag(t *testing.T) {
	os.Clearenv()
	dir := t.TempDir()
	file := filepath.Join(dir, "config.yaml")
	require.NoError(t, os.WriteFile(file, []byte("dummy_host: host-from-file\ndb: db-from-file\nuser: user-from-file\npassword: password-from-file\n"), 0o600))

	session := viper.New()
	flagSet := pflag.FlagSet{}
	flagSet.String("host", "host-flag-default", "dummy host")
	require.NoError(t, BindFlagToEnv(session, "test", "TEST_DUMMY_HOST", flagSet.Lookup("host")))

	cfg := &DummyConfiguration{}
	require.NoError(t, LoadFromEnvironment(session, "test", cfg, DefaultDummyConfiguration(), file))
	assert.Equal(t, "db-from-file", cfg.DB, "sanity: the file is read")
	assert.Equal(t, "host-from-file", cfg.Host, "the configuration file must take precedence over the default value of a flag nobody set")

	// and an environment variable still beats the file
	require.NoError(t, os.Setenv("TEST_DB", "db-from-env"))
	session2 := viper.New()
	cfg2 := &DummyConfiguration{}
	require.NoError(t, LoadFromEnvironment(session2, "test", cfg2, DefaultDummyConfiguration(), file))
	assert.Equal(t, "db-from-env", cfg2.DB)
}
