package filesystem

import (
	"context"
	"path/filepath"
	"testing"

	"github.com/stretchr/testify/assert"
	"github.com/stretchr/testify/require"

	"github.com/ARM-software/golang-utils/utils/commonerrors"
)

// An invalid exclusion pattern is rejected whatever the state of the directory to clean.
func TestK17CleanDirRejectsInvalidPatternsAlways(t *testing.T) {
	for name, fs := range map[string]FS{"os": NewStandardFileSystem(), "mem": NewInMemoryFileSystem()} {
		t.Run(name, func(t *testing.T) {
			root, err := fs.TempDirInTempDir("k17-")
			require.NoError(t, err)
			defer func() { _ = fs.Rm(root) }()
			empty := filepath.Join(root, "empty")
			require.NoError(t, fs.MkDir(empty))
			full := filepath.Join(root, "full")
			require.NoError(t, fs.MkDir(full))
			require.NoError(t, fs.WriteFile(filepath.Join(full, "f"), []byte("f"), 0600))
			for what, dir := range map[string]string{"non-empty": full, "empty": empty, "missing": filepath.Join(root, "missing")} {
				err = fs.CleanDirWithContextAndExclusionPatterns(context.Background(), dir, "(")
				assert.Truef(t, commonerrors.Any(err, commonerrors.ErrInvalid), "%v directory: expected 'invalid', got %v", what, err)
			}
			assert.True(t, fs.Exists(filepath.Join(full, "f")))
		})
	}
}
