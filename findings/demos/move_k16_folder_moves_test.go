package filesystem

import (
	"path/filepath"
	"testing"

	"github.com/stretchr/testify/assert"
	"github.com/stretchr/testify/require"
)

func k16Backends() map[string]FS {
	return map[string]FS{"os": NewStandardFileSystem(), "mem": NewInMemoryFileSystem()}
}

// Move of a folder into its parent when it holds a file of its own name: the file must not be lost.
func TestK16MoveFolderIntoParentKeepsHomonymousFile(t *testing.T) {
	for name, fs := range map[string]FS{"os": NewStandardFileSystem()} {
		t.Run(name, func(t *testing.T) {
			root, err := fs.TempDirInTempDir("k16-")
			require.NoError(t, err)
			defer func() { _ = fs.Rm(root) }()
			d := filepath.Join(root, "d")
			require.NoError(t, fs.MkDir(filepath.Join(d, "sub")))
			require.NoError(t, fs.WriteFile(filepath.Join(d, "sub", "sub"), []byte("precious"), 0600))
			require.NoError(t, fs.WriteFile(filepath.Join(d, "sub", "x"), []byte("x"), 0600))
			err = fs.Move(filepath.Join(d, "sub"), d)
			t.Logf("Move returned %v", err)
			var found []string
			_ = fs.ListDirTree(root, &found)
			t.Logf("tree: %v", found)
			content := ""
			for _, p := range []string{filepath.Join(d, "sub", "sub"), filepath.Join(d, "sub")} {
				if ok, _ := fs.IsFile(p); ok {
					b, _ := fs.ReadFile(p)
					content = string(b)
				}
			}
			assert.Equal(t, "precious", content, "the file d/sub/sub was lost (Move returned %v)", err)
		})
	}
}

// Move of a folder into itself must be refused and must not create anything.
func TestK16MoveFolderIntoItself(t *testing.T) {
	for name, fs := range k16Backends() {
		t.Run(name, func(t *testing.T) {
			root, err := fs.TempDirInTempDir("k16-")
			require.NoError(t, err)
			defer func() { _ = fs.Rm(root) }()
			a := filepath.Join(root, "a")
			require.NoError(t, fs.MkDir(a))
			require.NoError(t, fs.WriteFile(filepath.Join(a, "f"), []byte("f"), 0600))
			err = fs.Move(a, filepath.Join(a, "b"))
			require.Error(t, err)
			var found []string
			_ = fs.ListDirTree(root, &found)
			assert.LessOrEqual(t, len(found), 3, "Move(a, a/b) = %v left %d entries behind", err, len(found))
			assert.True(t, fs.Exists(filepath.Join(a, "f")))
		})
	}
}

// mv f d with d an existing directory: d/f, and the rest of d untouched, on both backends.
func TestK16MoveFileIntoExistingDirectory(t *testing.T) {
	for name, fs := range k16Backends() {
		t.Run(name, func(t *testing.T) {
			root, err := fs.TempDirInTempDir("k16-")
			require.NoError(t, err)
			defer func() { _ = fs.Rm(root) }()
			d := filepath.Join(root, "d")
			f := filepath.Join(root, "f")
			require.NoError(t, fs.MkDir(d))
			require.NoError(t, fs.WriteFile(filepath.Join(d, "other"), []byte("other"), 0600))
			require.NoError(t, fs.WriteFile(f, []byte("payload"), 0600))
			require.NoError(t, fs.Move(f, d))
			isDir, _ := fs.IsDir(d)
			assert.True(t, isDir, "d is no longer a directory")
			b, err := fs.ReadFile(filepath.Join(d, "f"))
			assert.NoError(t, err)
			assert.Equal(t, "payload", string(b))
			b, err = fs.ReadFile(filepath.Join(d, "other"))
			assert.NoError(t, err)
			assert.Equal(t, "other", string(b))
			names, _ := fs.Ls(d)
			assert.ElementsMatch(t, []string{"f", "other"}, names)
		})
	}
}

// mv a b with b an existing directory with content: both backends merge.
func TestK16MoveFolderOntoExistingDirectory(t *testing.T) {
	for name, fs := range k16Backends() {
		t.Run(name, func(t *testing.T) {
			root, err := fs.TempDirInTempDir("k16-")
			require.NoError(t, err)
			defer func() { _ = fs.Rm(root) }()
			a := filepath.Join(root, "a")
			b := filepath.Join(root, "b")
			require.NoError(t, fs.MkDir(a))
			require.NoError(t, fs.MkDir(b))
			require.NoError(t, fs.WriteFile(filepath.Join(a, "one"), []byte("1"), 0600))
			require.NoError(t, fs.WriteFile(filepath.Join(b, "two"), []byte("2"), 0600))
			require.NoError(t, fs.Move(a, b))
			names, _ := fs.Ls(b)
			assert.ElementsMatch(t, []string{"one", "two"}, names)
			assert.False(t, fs.Exists(a))
			c, err := fs.ReadFile(filepath.Join(b, "two"))
			assert.NoError(t, err)
			assert.Equal(t, "2", string(c))
		})
	}
}
