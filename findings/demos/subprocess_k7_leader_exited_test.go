package demo

import (
	"context"
	"os/exec"
	"strings"
	"testing"
	"time"

	"github.com/ARM-software/golang-utils/utils/logs"
	"github.com/ARM-software/golang-utils/utils/subprocess"
)

func survivors(pattern string) string {
	out, _ := exec.Command("sh", "-c", "ps -eo pid,ppid,pgid,stat,args | grep '"+pattern+"' | grep -v grep").CombinedOutput()
	return strings.TrimSpace(string(out))
}

// The group leader has already exited (it is a zombie until waited for) while members of its group are still running.
func TestK7StopAfterLeaderExited(t *testing.T) {
	for _, mode := range []string{"Stop", "ContextCancel"} {
		t.Run(mode, func(t *testing.T) {
			l, _ := logs.NewPlainStringLogger()
			ctx, cancel := context.WithCancel(context.Background())
			defer cancel()
			p, err := subprocess.New(ctx, l, "start", "ok", "ko", "sh", "-c", "sleep 41 & sleep 42 & exit 0")
			if err != nil {
				t.Fatal(err)
			}
			if err = p.Start(); err != nil {
				t.Fatal(err)
			}
			time.Sleep(500 * time.Millisecond)
			t.Logf("before stop:\n%s", survivors("sleep 4[12]"))
			done := make(chan error, 1)
			t0 := time.Now()
			go func() {
				if mode == "Stop" {
					done <- p.Stop()
				} else {
					cancel()
					for p.IsOn() {
						time.Sleep(10 * time.Millisecond)
					}
					done <- nil
				}
			}()
			select {
			case e := <-done:
				t.Logf("%s returned after %v err=%v", mode, time.Since(t0).Round(time.Millisecond), e)
			case <-time.After(6 * time.Second):
				t.Errorf("%s did not return within 6s", mode)
			}
			time.Sleep(200 * time.Millisecond)
			if s := survivors("sleep 4[12]"); s != "" {
				t.Errorf("members of the process group survive the stop:\n%s", s)
			}
			if p.IsOn() {
				t.Errorf("IsOn() still true")
			}
			_ = exec.Command("pkill", "-f", "sleep 4[12]").Run()
		})
	}
}
