package filesystem

import (
	"path/filepath"
	"testing"

	"github.com/stretchr/testify/assert"
	"github.com/stretchr/testify/require"

	"github.com/ARM-software/golang-utils/utils/commonerrors"
)

// Moving or copying something which does not exist fails with 'not found', whatever the destination - the source itself included (mv, cp).
func TestK50MissingSourceEqualToDestination(t *testing.T) {
	for _, fsType := range FileSystemTypes {
		fs := NewFs(fsType)
		tmp, err := fs.TempDirInTempDir("k50")
		require.NoError(t, err)
		missing := filepath.Join(tmp, "missing")
		other := filepath.Join(tmp, "other")
		assert.True(t, commonerrors.Any(fs.Move(missing, other), commonerrors.ErrNotFound))
		assert.True(t, commonerrors.Any(fs.Move(missing, missing), commonerrors.ErrNotFound), "Move(missing, missing) on %v", fsType)
		assert.True(t, commonerrors.Any(fs.Copy(missing, other), commonerrors.ErrNotFound))
		assert.True(t, commonerrors.Any(fs.Copy(missing, missing), commonerrors.ErrNotFound), "Copy(missing, missing) on %v", fsType)
		// an existing path moved or copied onto itself stays a no-op
		existing := filepath.Join(tmp, "existing")
		require.NoError(t, fs.WriteFile(existing, []byte("content"), 0644))
		assert.NoError(t, fs.Move(existing, existing))
		assert.NoError(t, fs.Copy(existing, existing))
		content, err := fs.ReadFile(existing)
		require.NoError(t, err)
		assert.Equal(t, "content", string(content))
		_ = fs.Rm(tmp)
	}
}
