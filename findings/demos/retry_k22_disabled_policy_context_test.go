package retry

import (
	"context"
	"testing"

	"github.com/go-logr/logr"
	"github.com/stretchr/testify/assert"

	"github.com/ARM-software/golang-utils/utils/commonerrors"
)

// With retries disabled the operation is attempted once: like with retries enabled, never once the context is done,
// and context errors are reported as 'cancelled' / 'timeout'.
func TestK22DisabledPolicyHonoursTheContext(t *testing.T) {
	policy := DefaultNoRetryPolicyConfiguration()
	ctx, cancel := context.WithCancel(context.Background())
	cancel()
	attempts := 0
	err := RetryIf(ctx, logr.Discard(), policy, func() error { attempts++; return nil }, "retry", func(error) bool { return true })
	assert.Equal(t, 0, attempts, "the operation was attempted although the context was done")
	assert.True(t, commonerrors.Any(err, commonerrors.ErrCancelled), "expected 'cancelled', got %v", err)

	err = RetryIf(context.Background(), logr.Discard(), policy, func() error { return context.DeadlineExceeded }, "retry", func(error) bool { return true })
	assert.True(t, commonerrors.Any(err, commonerrors.ErrTimeout), "expected 'timeout', got %v", err)
	assert.NotErrorIs(t, err, context.Canceled)
	err = RetryIf(context.Background(), logr.Discard(), policy, func() error { return context.Canceled }, "retry", func(error) bool { return true })
	assert.True(t, commonerrors.Any(err, commonerrors.ErrCancelled), "expected 'cancelled', got %v", err)
}
