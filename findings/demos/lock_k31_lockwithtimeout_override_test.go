package filesystem

import (
	"context"
	"testing"
	"time"

	"github.com/stretchr/testify/assert"
	"github.com/stretchr/testify/require"
)

// Once its holder is dead, a lock is recovered by a contender which overrides stale locks, however it acquires.
func TestK31LockWithTimeoutRecoversAStaleLock(t *testing.T) {
	fs := NewStandardFileSystem().(*VFS)
	dir := t.TempDir()
	id := "k31"
	for _, acquire := range []string{"TryLock", "LockWithTimeout"} {
		t.Run(acquire, func(t *testing.T) {
			holder := NewGenericRemoteLockFile(fs, id, dir, false)
			require.NoError(t, holder.TryLock(context.Background()))
			// the holder dies: its heart beat stops and the lock directory stays behind.
			require.NoError(t, holder.MakeStale(context.Background()))
			require.True(t, holder.IsStale())

			contender := NewGenericRemoteLockFile(fs, id, dir, true)
			var err error
			if acquire == "TryLock" {
				err = contender.TryLock(context.Background())
			} else {
				err = contender.LockWithTimeout(context.Background(), 2*time.Second)
			}
			require.NoError(t, err, "the stale lock was not recovered")
			// and the lock just acquired is alive
			time.Sleep(300 * time.Millisecond)
			assert.False(t, contender.IsStale(), "the lock acquired with %v has no running heart beat", acquire)
			require.NoError(t, contender.Unlock(context.Background()))
		})
	}
}
