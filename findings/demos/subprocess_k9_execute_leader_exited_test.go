package demo

import (
	"context"
	"os/exec"
	"strings"
	"testing"
	"time"

	"github.com/ARM-software/golang-utils/utils/logs"
	"github.com/ARM-software/golang-utils/utils/subprocess"
)

func alive(pattern string) string {
	out, _ := exec.Command("sh", "-c", "ps -eo pid,ppid,pgid,stat,args | grep '"+pattern+"' | grep -v grep").CombinedOutput()
	return strings.TrimSpace(string(out))
}

// Execute mode: the group leader exits by itself while a member of its group is still running, then the context is cancelled.
func TestK9ExecuteCancelAfterLeaderExited(t *testing.T) {
	l, _ := logs.NewPlainStringLogger()
	ctx, cancel := context.WithCancel(context.Background())
	defer cancel()
	p, err := subprocess.New(ctx, l, "start", "ok", "ko", "sh", "-c", "sleep 5.17 & exit 0")
	if err != nil {
		t.Fatal(err)
	}
	done := make(chan error, 1)
	go func() { done <- p.Execute() }()
	time.Sleep(500 * time.Millisecond)
	t0 := time.Now()
	cancel()
	select {
	case e := <-done:
		t.Logf("Execute returned %v after the cancellation, err=%v", time.Since(t0).Round(time.Millisecond), e)
		if time.Since(t0) > 2*time.Second {
			t.Errorf("Execute waited for the surviving member of the group instead of returning promptly")
		}
	case <-time.After(3 * time.Second):
		t.Errorf("Execute still blocked 3s after the cancellation; group members alive:\n%s", alive("sleep 5[.]17"))
		<-done
	}
	if s := alive("sleep 5[.]17"); s != "" {
		t.Errorf("a member of the process group survives the cancellation:\n%s", s)
	}
}
