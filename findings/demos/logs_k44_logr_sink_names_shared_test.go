package logs

import (
	"sync"
	"testing"

	"github.com/stretchr/testify/assert"
	"github.com/stretchr/testify/require"
)

// Run with -race: children derived concurrently from one sink do not write to one another's list of names,
// and each child ends up with its own name.
func TestK44LogrSinkNamesNotShared(t *testing.T) {
	loggers, err := NewStringLogger("test")
	require.NoError(t, err)
	for round := 0; round < 200; round++ {
		parent := NewLoggersLogSink(loggers).WithName("a").WithName("b").WithName("c")
		var wg sync.WaitGroup
		children := make([]*loggersLogSinkAdapter, 2)
		for i, name := range []string{"d", "e"} {
			wg.Add(1)
			go func(i int, name string) {
				defer wg.Done()
				children[i] = parent.WithName(name).(*loggersLogSinkAdapter)
			}(i, name)
		}
		wg.Wait()
		for i, name := range []string{"d", "e"} {
			namesAny, ok := children[i].values.Load(keyloggerSources)
			require.True(t, ok)
			assert.Equal(t, []string{"a", "b", "c", name}, namesAny.([]string))
		}
	}
}
