package filesystem

// K69 / F91 (C06): CopyToDirectory(a, a/sub) created a/sub inside the source before the copy was refused.
import (
	"path/filepath"
	"sort"
	"testing"
)

func TestK69CopyToDirectoryInsideTheSourceLeavesTheSourceAlone(t *testing.T) {
	for _, fsType := range []FilesystemType{StandardFS, InMemoryFS} {
		t.Run(fsType.String(), func(t *testing.T) {
			fs := NewFs(fsType)
			tmp, err := fs.TempDirInTempDir("k69")
			if err != nil {
				t.Fatal(err)
			}
			defer func() { _ = fs.Rm(tmp) }()
			a := filepath.Join(tmp, "a")
			if err = fs.MkDir(a); err != nil {
				t.Fatal(err)
			}
			if err = fs.WriteFile(filepath.Join(a, "f"), []byte("f"), 0o644); err != nil {
				t.Fatal(err)
			}
			before, _ := fs.Ls(a)
			err = fs.CopyToDirectory(a, filepath.Join(a, "sub"))
			after, _ := fs.Ls(a)
			sort.Strings(before)
			sort.Strings(after)
			t.Logf("CopyToDirectory answered %v; the source held %v and holds %v", err, before, after)
			if err == nil {
				t.Errorf("a directory was copied into itself")
			}
			if len(after) != len(before) {
				t.Errorf("the refused copy changed its source: %v -> %v", before, after)
			}
		})
	}
}
