package subprocess

import (
	"context"
	"testing"
	"time"

	"github.com/stretchr/testify/assert"
	"github.com/stretchr/testify/require"

	"github.com/ARM-software/golang-utils/utils/logs"
)

// Execute returns nil exactly when the child exits with status 0: running the same subprocess again and again, nobody cancelling anything, never yields 'cancelled'.
func TestK49ExecuteBackToBack(t *testing.T) {
	loggers, err := logs.NewStringLogger("k49")
	require.NoError(t, err)
	p, err := New(context.Background(), loggers, "", "", "", "true")
	require.NoError(t, err)
	failures := 0
	for i := 0; i < 300; i++ {
		if err := p.Execute(); err != nil {
			failures++
			if failures < 4 {
				t.Logf("run %v: %v", i, err)
			}
		}
	}
	assert.Zero(t, failures, "spurious failures of `true`")
}

// The same with Start/Stop: a process started straight after the previous one was stopped is not killed by what is left of the previous run.
func TestK49StopThenStart(t *testing.T) {
	loggers, err := logs.NewStringLogger("k49")
	require.NoError(t, err)
	p, err := New(context.Background(), loggers, "", "", "", "sleep", "3")
	require.NoError(t, err)
	defer func() { _ = p.Stop() }()
	failures := 0
	for i := 0; i < 40; i++ {
		if err := p.Start(); err != nil {
			failures++
			if failures < 4 {
				t.Logf("start %v: %v", i, err)
			}
			continue
		}
		time.Sleep(20 * time.Millisecond)
		if !p.IsOn() {
			failures++
			if failures < 4 {
				t.Logf("start %v: the process was gone 20ms after it was started", i)
			}
		}
		require.NoError(t, p.Stop())
	}
	assert.Zero(t, failures)
}
