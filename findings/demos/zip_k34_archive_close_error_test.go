package filesystem

import (
	"errors"
	"os"
	"path/filepath"
	"strings"
	"testing"

	"github.com/spf13/afero"
	"github.com/stretchr/testify/assert"
	"github.com/stretchr/testify/require"
)

// k34Fs fails every write to files whose name ends with ".zip".
type k34Fs struct {
	*ExtendedOsFs
}

type k34File struct {
	afero.File
}

func (f *k34File) Write(p []byte) (int, error) { return 0, errors.New("k34: no space left on device") }

func (f *k34Fs) OpenFile(name string, flag int, perm os.FileMode) (afero.File, error) {
	file, err := f.ExtendedOsFs.OpenFile(name, flag, perm)
	if err == nil && strings.HasSuffix(name, ".zip") && flag&(os.O_WRONLY|os.O_RDWR) != 0 {
		return &k34File{File: file}, nil
	}
	return file, err
}

func (f *k34Fs) Create(name string) (afero.File, error) {
	file, err := f.ExtendedOsFs.Create(name)
	if err == nil && strings.HasSuffix(name, ".zip") {
		return &k34File{File: file}, nil
	}
	return file, err
}

// When the archive cannot be written, Zip says so.
func TestK34ZipReportsAFailedWriteOfTheArchive(t *testing.T) {
	fs := NewVirtualFileSystem(&k34Fs{ExtendedOsFs: &ExtendedOsFs{}}, StandardFS, IdentityPathConverterFunc)
	root := t.TempDir()
	src := filepath.Join(root, "src")
	require.NoError(t, fs.MkDir(src))
	require.NoError(t, os.WriteFile(filepath.Join(src, "a.txt"), []byte("a small file"), 0600))
	archive := filepath.Join(root, "out.zip")
	err := fs.Zip(src, archive)
	if err == nil {
		_, unzipErr := NewStandardFileSystem().Unzip(archive, filepath.Join(root, "dest"))
		assert.NoError(t, unzipErr, "Zip reported success but the archive it wrote cannot be read back")
	}
	assert.Error(t, err, "no byte of the archive could be written and Zip reported success")
}
