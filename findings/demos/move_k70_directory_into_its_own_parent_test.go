package filesystem

import (
	"context"
	"path/filepath"
	"testing"
)

// K70 (C06): MoveBetweenFS(d/e, d) — moving a directory into the directory it is already in.
func TestK70MoveOfADirectoryIntoItsOwnParent(t *testing.T) {
	for _, fsType := range []FilesystemType{StandardFS, InMemoryFS} {
		t.Run(fsType.String(), func(t *testing.T) {
			fs := NewFs(fsType)
			tmp, err := fs.TempDirInTempDir("k70")
			if err != nil {
				t.Fatal(err)
			}
			defer func() { _ = fs.Rm(tmp) }()
			e := filepath.Join(tmp, "d", "e")
			if err = fs.MkDir(e); err != nil {
				t.Fatal(err)
			}
			if err = fs.WriteFile(filepath.Join(e, "b.txt"), []byte("b"), 0o644); err != nil {
				t.Fatal(err)
			}
			err = MoveBetweenFS(context.Background(), fs, e, fs, filepath.Join(tmp, "d"))
			t.Logf("MoveBetweenFS answered %v; d/e/b.txt exists: %v", err, fs.Exists(filepath.Join(e, "b.txt")))
			if !fs.Exists(filepath.Join(e, "b.txt")) {
				t.Errorf("the directory moved into its own parent was deleted with its content")
			}
			// the same for a file
			f := filepath.Join(tmp, "d", "f.txt")
			if err = fs.WriteFile(f, []byte("f"), 0o644); err != nil {
				t.Fatal(err)
			}
			err = MoveBetweenFS(context.Background(), fs, f, fs, filepath.Join(tmp, "d"))
			t.Logf("file: MoveBetweenFS answered %v; exists: %v", err, fs.Exists(f))
			if !fs.Exists(f) {
				t.Errorf("the file moved into its own directory was deleted")
			}
		})
	}
}
