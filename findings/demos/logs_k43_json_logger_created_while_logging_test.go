package logs

import (
	"sync"
	"testing"

	"github.com/stretchr/testify/require"
)

// Run with -race: creating a JSON logger while another JSON logger is logging is not a data race.
func TestK43JSONLoggerCreatedWhileAnotherLogs(t *testing.T) {
	first, err := NewJSONLogger(&StdWriter{}, "first", "source")
	require.NoError(t, err)
	var wg sync.WaitGroup
	wg.Add(2)
	go func() {
		defer wg.Done()
		for i := 0; i < 200; i++ {
			first.Log("message", i)
		}
	}()
	go func() {
		defer wg.Done()
		for i := 0; i < 200; i++ {
			l, err := NewJSONLogger(&StdWriter{}, "other", "source")
			if err == nil {
				l.Log("created", i)
			}
		}
	}()
	wg.Wait()
}
