package filesystem

import (
	"path/filepath"
	"testing"
	"time"

	"github.com/stretchr/testify/assert"
	"github.com/stretchr/testify/require"
)

// Modification times of files are preserved by a zip / unzip round trip, on both backends.
func TestK38UnzipPreservesFileTimes(t *testing.T) {
	for name, fs := range map[string]FS{"os": NewStandardFileSystem(), "mem": NewInMemoryFileSystem()} {
		t.Run(name, func(t *testing.T) {
			root, err := fs.TempDirInTempDir("k38-")
			require.NoError(t, err)
			defer func() { _ = fs.Rm(root) }()
			src := filepath.Join(root, "src")
			require.NoError(t, fs.MkDir(src))
			f := filepath.Join(src, "f.txt")
			require.NoError(t, fs.WriteFile(f, []byte("content"), 0600))
			old := time.Date(2015, 6, 7, 8, 9, 10, 0, time.UTC)
			require.NoError(t, fs.Chtimes(f, old, old))
			archive := filepath.Join(root, "a.zip")
			require.NoError(t, fs.Zip(src, archive))
			dest := filepath.Join(root, "dest")
			_, err = fs.Unzip(archive, dest)
			require.NoError(t, err)
			info, err := fs.Stat(filepath.Join(dest, "f.txt"))
			require.NoError(t, err)
			assert.WithinDuration(t, old, info.ModTime(), 2*time.Second, "modification time of the extracted file")
		})
	}
}
