package filesystem

import (
	"context"
	"os"
	"path/filepath"
	"syscall"
	"testing"

	"github.com/stretchr/testify/assert"
	"github.com/stretchr/testify/require"
)

// k30Fs is the OS backend but for the fact that the path `stubborn` cannot be removed; it records whose ownership is changed.
type k30Fs struct {
	*ExtendedOsFs
	stubborn string
	chowned  []string
}

func (f *k30Fs) Remove(name string) error {
	if filepath.Clean(name) == f.stubborn {
		return &os.PathError{Op: "remove", Path: name, Err: syscall.EPERM}
	}
	return f.ExtendedOsFs.Remove(name)
}

func (f *k30Fs) RemoveAll(name string) error {
	if filepath.Clean(name) == f.stubborn {
		return &os.PathError{Op: "remove", Path: name, Err: syscall.EPERM}
	}
	return f.ExtendedOsFs.RemoveAll(name)
}

func (f *k30Fs) ChownIfPossible(name string, uid int, gid int) error {
	f.chowned = append(f.chowned, name)
	return nil
}

func (f *k30Fs) ForceRemoveIfPossible(path string) error { return nil }

// Removing a symbolic link never touches what the link points to, also when the removal has to be forced.
func TestK30RemoveWithPrivilegesOfALinkLeavesItsTargetAlone(t *testing.T) {
	root := t.TempDir()
	outside := filepath.Join(root, "outside")
	require.NoError(t, os.MkdirAll(outside, 0700))
	require.NoError(t, os.WriteFile(filepath.Join(outside, "precious"), []byte("precious"), 0600))
	tree := filepath.Join(root, "tree")
	require.NoError(t, os.MkdirAll(tree, 0700))
	link := filepath.Join(tree, "link")
	require.NoError(t, os.Symlink(outside, link))

	backend := &k30Fs{ExtendedOsFs: &ExtendedOsFs{}, stubborn: link}
	fs := NewVirtualFileSystem(backend, StandardFS, IdentityPathConverterFunc)
	_ = fs.RemoveWithPrivileges(context.Background(), link)
	for _, name := range backend.chowned {
		info, err := os.Lstat(name)
		require.NoError(t, err)
		assert.Zerof(t, info.Mode()&os.ModeSymlink, "the ownership of what the link [%v] points to was changed (chown follows links)", name)
	}
}
