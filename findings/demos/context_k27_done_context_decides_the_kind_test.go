package filesystem

import (
	"context"
	"path/filepath"
	"testing"

	"github.com/stretchr/testify/assert"

	"github.com/ARM-software/golang-utils/utils/commonerrors"
)

// With a context that is already done, a context-accepting operation fails with the 'cancelled' kind whatever its other arguments.
func TestK27DoneContextDecidesTheKind(t *testing.T) {
	ctx, cancel := context.WithCancel(context.Background())
	cancel()
	fs := NewStandardFileSystem()
	dir := t.TempDir()
	var list []string
	hasher, err := NewFileHash("SHA256")
	assert.NoError(t, err)
	_, isZipErr := fs.IsZipWithContext(ctx, "")
	_, hashErr := fs.FileHashWithContext(ctx, "nonsense-algo", filepath.Join(dir, "f"))
	_, calcErr := hasher.CalculateWithContext(ctx, nil)
	for what, err := range map[string]error{
		"CopyToFileWithContext":                       fs.CopyToFileWithContext(ctx, filepath.Join(dir, "missing"), filepath.Join(dir, "dest")),
		"FileHashWithContext":                         hashErr,
		"IsZipWithContext":                            isZipErr,
		"ListDirTreeWithContextAndExclusionPatterns":  fs.ListDirTreeWithContextAndExclusionPatterns(ctx, dir, &list, "("),
		"ZipWithContextAndLimitsAndExclusionPatterns": fs.ZipWithContextAndLimitsAndExclusionPatterns(ctx, dir, filepath.Join(dir, "z.zip"), nil),
		"CopyBetweenFSWithExclusionPatterns":          CopyBetweenFSWithExclusionPatterns(ctx, fs, dir, fs, filepath.Join(dir, "copy"), "("),
		"fileHashing.CalculateWithContext":            calcErr,
	} {
		assert.Truef(t, commonerrors.Any(err, commonerrors.ErrCancelled), "%v: expected 'cancelled', got %v", what, err)
	}
}
