package filesystem

import (
	"context"
	"os"
	"path/filepath"
	"testing"
	"time"

	"github.com/stretchr/testify/assert"
	"github.com/stretchr/testify/require"
)

// A copy never changes its source, also when source and destination are one object under two spellings (a relative and an
// absolute path, two names of one file, two filesystem objects over the same disk).
func TestK65CopyOntoItselfUnderAnotherSpelling(t *testing.T) {
	fs := NewStandardFileSystem()
	tmp, err := fs.TempDirInTempDir("k65")
	require.NoError(t, err)
	tmp, err = filepath.EvalSymlinks(tmp)
	require.NoError(t, err)
	defer func() { _ = fs.Rm(tmp) }()
	cwd, err := os.Getwd()
	require.NoError(t, err)
	require.NoError(t, os.Chdir(tmp))
	defer func() { _ = os.Chdir(cwd) }()

	content := func(name string) string {
		b, rErr := os.ReadFile(filepath.Join(tmp, name))
		require.NoError(t, rErr)
		return string(b)
	}
	t.Run("relative source, absolute destination", func(t *testing.T) {
		require.NoError(t, os.WriteFile(filepath.Join(tmp, "g"), []byte("precious"), 0600))
		err := fs.Copy("g", filepath.Join(tmp, "g"))
		t.Logf("Copy answered: %v", err)
		assert.Equal(t, "precious", content("g"), "the source after the copy")
	})
	t.Run("two names of one file", func(t *testing.T) {
		require.NoError(t, os.WriteFile(filepath.Join(tmp, "f"), []byte("precious"), 0600))
		require.NoError(t, os.Link(filepath.Join(tmp, "f"), filepath.Join(tmp, "h")))
		err := fs.Copy(filepath.Join(tmp, "f"), filepath.Join(tmp, "h"))
		t.Logf("Copy answered: %v", err)
		assert.Equal(t, "precious", content("f"), "the source after the copy")
	})
	t.Run("two filesystem objects", func(t *testing.T) {
		require.NoError(t, os.WriteFile(filepath.Join(tmp, "k"), []byte("precious"), 0600))
		err := CopyBetweenFS(context.Background(), NewStandardFileSystem(), filepath.Join(tmp, "k"), NewStandardFileSystem(), filepath.Join(tmp, "k"))
		t.Logf("CopyBetweenFS answered: %v", err)
		assert.Equal(t, "precious", content("k"), "the source after the copy")
	})
	t.Run("move onto itself, relative source and absolute destination", func(t *testing.T) {
		require.NoError(t, os.WriteFile(filepath.Join(tmp, "m"), []byte("precious"), 0600))
		err := MoveBetweenFS(context.Background(), fs, "m", fs, filepath.Join(tmp, "m"))
		t.Logf("MoveBetweenFS answered: %v", err)
		assert.Equal(t, "precious", content("m"), "the file after the move onto itself")
	})
	t.Run("directory into itself, relative source", func(t *testing.T) {
		require.NoError(t, os.MkdirAll(filepath.Join(tmp, "a", "sub"), 0755))
		require.NoError(t, os.WriteFile(filepath.Join(tmp, "a", "sub", "x"), []byte("x"), 0600))
		ctx, cancel := context.WithTimeout(context.Background(), 500*time.Millisecond)
		defer cancel()
		err := fs.CopyWithContext(ctx, "a", filepath.Join(tmp, "a", "b"))
		t.Logf("Copy answered: %v", err)
		entries := 0
		_ = filepath.Walk(filepath.Join(tmp, "a"), func(string, os.FileInfo, error) error { entries++; return nil })
		assert.LessOrEqual(t, entries, 4, "entries in the source after the copy (it had 3: a, a/sub, a/sub/x)")
	})
}
