package config

import (
	"testing"

	"github.com/stretchr/testify/assert"
	"github.com/stretchr/testify/require"
)

// The variable named by a validation error is the variable loading honours, also when the prefix contains the key separator.
func TestK47ErrorNamesTheVariableHonoured(t *testing.T) {
	field := "inner"
	prefix := "my.app"
	err := WrapFieldValidationError("Inner", &field, &prefix, assert.AnError)
	require.NotNil(t, err)
	assert.Equal(t, "MY_APP_INNER", err.GetMapStructurePath())
	assert.Contains(t, err.Error(), "[MY_APP_INNER]")
}
