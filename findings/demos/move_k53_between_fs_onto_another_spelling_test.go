package filesystem

import (
	"context"
	"path/filepath"
	"testing"

	"github.com/stretchr/testify/assert"
	"github.com/stretchr/testify/require"

	"github.com/ARM-software/golang-utils/utils/commonerrors"
)

// Moving something onto itself never destroys it, however the two paths are spelt; moving something missing fails.
func TestK53MoveBetweenFSOntoAnotherSpellingOfItself(t *testing.T) {
	for _, fsType := range FileSystemTypes {
		fs := NewFs(fsType)
		tmp, err := fs.TempDirInTempDir("k53")
		require.NoError(t, err)
		file := filepath.Join(tmp, "f")
		require.NoError(t, fs.WriteFile(file, []byte("content"), 0644))
		for _, other := range []string{tmp + string(fs.PathSeparator()) + "." + string(fs.PathSeparator()) + "f", tmp + string(fs.PathSeparator()) + string(fs.PathSeparator()) + "f", file} {
			err = MoveBetweenFS(context.Background(), fs, file, fs, other)
			assert.NoError(t, err)
			content, readErr := fs.ReadFile(file)
			require.NoError(t, readErr, "MoveBetweenFS(%v, %v) on %v: the file is gone", file, other, fsType)
			assert.Equal(t, "content", string(content))
		}
		dir := filepath.Join(tmp, "d")
		require.NoError(t, fs.MkDir(filepath.Join(dir, "sub")))
		require.NoError(t, fs.WriteFile(filepath.Join(dir, "sub", "g"), []byte("content"), 0644))
		err = MoveBetweenFS(context.Background(), fs, dir, fs, dir+string(fs.PathSeparator()))
		t.Logf("MoveBetweenFS(d, d/) on %v: %v", fsType, err)
		assert.True(t, fs.Exists(filepath.Join(dir, "sub", "g")), "MoveBetweenFS(d, d/) on %v: the tree is gone", fsType)
		missing := filepath.Join(tmp, "missing")
		assert.True(t, commonerrors.Any(MoveBetweenFS(context.Background(), fs, missing, fs, missing), commonerrors.ErrNotFound), "MoveBetweenFS(missing, missing) on %v", fsType)
		_ = fs.Rm(tmp)
	}
}
