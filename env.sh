# sourced by ./check and setup: toolchain for building the checker and for go list
export PATH=/opt/veriftools/go1.26.8/bin:$PATH
export GOFLAGS=-mod=mod GOPROXY=off GOSUMDB=off GOTOOLCHAIN=local
unset GOWORK
